// stmtpoints rewrites one Go source file (simulated build only): before every statement of every
// function body it inserts `vsync.PreemptStmt("<pkg>.<Func>:<line>")` - a preemption point that
// costs one atomic load unless the simulator armed it for the goroutine it just released.
//
// usage: stmtpoints <in.go> <pkg-label> <out.go>      (prints the number of inserted points)
package main

import (
	"bytes"
	"fmt"
	"go/ast"
	"go/parser"
	"go/printer"
	"go/token"
	"os"
	"strconv"
)

var (
	fset  = token.NewFileSet()
	count int
	label string
)

func point(fn string, pos token.Pos) ast.Stmt {
	count++
	name := label + "." + fn + ":" + strconv.Itoa(fset.Position(pos).Line)
	return &ast.ExprStmt{X: &ast.CallExpr{
		Fun:  &ast.SelectorExpr{X: ast.NewIdent("vsync"), Sel: ast.NewIdent("PreemptStmt")},
		Args: []ast.Expr{&ast.BasicLit{Kind: token.STRING, Value: strconv.Quote(name)}},
	}}
}

func isPoint(s ast.Stmt) bool {
	es, ok := s.(*ast.ExprStmt)
	if !ok {
		return false
	}
	ce, ok := es.X.(*ast.CallExpr)
	if !ok {
		return false
	}
	se, ok := ce.Fun.(*ast.SelectorExpr)
	if !ok {
		return false
	}
	id, ok := se.X.(*ast.Ident)
	return ok && id.Name == "vsync"
}

func rewriteList(fn string, list []ast.Stmt) []ast.Stmt {
	out := make([]ast.Stmt, 0, 2*len(list))
	for i, s := range list {
		switch s.(type) {
		case *ast.CaseClause, *ast.CommClause:
			// the body of a switch / select: clauses, not statements
			out = append(out, s)
			continue
		}
		// the function-entry point inserted by the textual pass stays first; no point right after it
		if !(isPoint(s)) && !(i > 0 && isPoint(list[i-1]) && i == 1) {
			out = append(out, point(fn, s.Pos()))
		}
		out = append(out, s)
	}
	return out
}

type visitor struct{ fn string }

func (v visitor) Visit(n ast.Node) ast.Visitor {
	switch x := n.(type) {
	case *ast.BlockStmt:
		x.List = rewriteList(v.fn, x.List)
	case *ast.CaseClause:
		x.Body = rewriteList(v.fn, x.Body)
	case *ast.CommClause:
		x.Body = rewriteList(v.fn, x.Body)
	}
	return v
}

func main() {
	if len(os.Args) != 4 {
		fmt.Fprintln(os.Stderr, "usage: stmtpoints in.go pkg out.go")
		os.Exit(2)
	}
	label = os.Args[2]
	f, err := parser.ParseFile(fset, os.Args[1], nil, parser.ParseComments)
	if err != nil {
		fmt.Fprintln(os.Stderr, err)
		os.Exit(1)
	}
	for _, d := range f.Decls {
		fd, ok := d.(*ast.FuncDecl)
		if !ok || fd.Body == nil || fd.Name.Name == "init" || fd.Name.Name == "main" {
			continue
		}
		ast.Walk(visitor{fd.Name.Name}, fd.Body)
	}
	var buf bytes.Buffer
	if err := (&printer.Config{Mode: printer.UseSpaces | printer.TabIndent, Tabwidth: 8}).Fprint(&buf, fset, f); err != nil {
		fmt.Fprintln(os.Stderr, err)
		os.Exit(1)
	}
	if err := os.WriteFile(os.Args[3], buf.Bytes(), 0o644); err != nil {
		fmt.Fprintln(os.Stderr, err)
		os.Exit(1)
	}
	fmt.Println(count)
}

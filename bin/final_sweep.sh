#!/bin/bash
# SCHED properties once more at the thorough tier (seed $1), then the quick tier of every check under the
# seeds $2.. (what a fresh run with an arbitrary VERIF_SEED will do). Any non-zero exit is printed.
cd "$(dirname "$0")/.."
s=$1; shift
bad=0
for p in C01 C02 C03 C04; do
  out=$(env VERIF_SEED=$s VERIF_BUDGET_S=${SWEEP_THOROUGH_S:-300} VERIF_OUT=/var/tmp/sweep-out python3 bin/vcheck.py $p thorough 2>&1); rc=$?
  echo "thorough seed=$s $p exit=$rc $(echo "$out" | grep '^runs=' | cut -c1-120)"
  if [ $rc -ne 0 ]; then bad=1; echo "$out" | grep -v '"stacks"' | cut -c1-1500 | tail -20; fi
done
rm -rf /var/tmp/sweep-out
bin/soak.sh "$@" || bad=1
exit $bad

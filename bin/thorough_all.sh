#!/bin/bash
# Runs every registered thorough check once (env VERIF_SEED, VERIF_BUDGET_S); prints one line per check.
cd "$(dirname "$0")/.."
bad=0
for p in $(python3 -c "import json; print(' '.join(c['property_id'] for c in json.load(open('MANIFEST.json'))['checks']))"); do
  out=$(env VERIF_OUT=${THOR_OUT:-/var/tmp/thor-out-$$} python3 bin/vcheck.py $p thorough 2>&1); rc=$?
  echo "$p exit=$rc $(echo "$out" | grep '^runs=' | cut -c1-140)"
  if [ $rc -ne 0 ]; then bad=1; echo "$out" | grep -v '"stacks"' | cut -c1-1500 | tail -25; fi
done
[ -n "$THOR_KEEP" ] || rm -rf ${THOR_OUT:-/var/tmp/thor-out-$$}
exit $bad

"""Per-property configuration of the simulation checks (engines, profiles, budgets, evidence text)."""

REAL_VS_STUB = {
    "real_code": [
        "pkg/scheduler (Schedule loop, checkStatus, runStage, nested pipelines, Cancel)",
        "pkg/runner (TaskRunner.Run/Cancel/Finish, hooks, compiler, ExecutionContext) in INTEG/CLI/WATCH engines",
        "pkg/executor + mvdan.cc/sh parser/interpreter (expansion, builtins, exit-status plumbing) in INTEG/CLI/WATCH engines",
        "pkg/output decorators, pkg/variables, pkg/task",
        "stage conditions: real os/exec of /bin/true, /bin/false, a missing path",
    ],
    "stubs": [
        "external process execution: interp.ExecHandler replaced by the simulated process layer (exit status, output chunks, stall, interrupt behaviour chosen by the controller)",
        "clock: testing/synctest fake clock, advanced only by the controller",
        "SCHED engine: runner.Runner is a controlled stub (parks at Run entry, outcome from the world)",
        "main() / signal handling: CLI entered at makeApp().Run(args)",
    ],
}

_SCHED_ASSUME = [
    "sampling, not proof: seeded search over worlds, completion orders and fault instants",
    "goroutine interleavings are explored at park points (stage goroutine start, Runner.Run entry/exit) and at scheduler passes; Go map iteration order inside one pass is runtime-chosen and neutralised by canonical (sorted) observation",
    "the Runner is a stub in this engine; the real TaskRunner is exercised by the INTEG engine",
]

PROPS = {
    "C01": {
        "level": "exploration",
        "parts": [{"engine": "sched", "profile": "c01", "weight": 1}],
        "rule": "worlds: every DAG shape on 1..4 stages by index (x declaration order, outcomes, allow_failure, conditions, nested pipeline drawn per world), random DAGs beyond; each world under 4 seeded schedules (which parked stage goroutine / Run call proceeds next, passes in between). distinct = canonical event-log hash (timestamps removed, events of one quiescence sorted); non-trivial = at least two stage tasks in flight together at some point",
        "assumptions": _SCHED_ASSUME,
    },
    "C02": {
        "level": "exploration",
        "cross_outcome": True,
        "parts": [{"engine": "sched", "profile": "c02", "weight": 1}],
        "rule": "same worlds as C01; final status of every stage, executed set and Schedule error compared with a pure reference model per run, and final outcome vectors of the 4 schedules of one world compared with each other. distinct = canonical event-log hash; non-trivial = >=2 tasks in flight together",
        "assumptions": _SCHED_ASSUME + ["a stage with a false condition below an un-allowed failure: both readings of the statement are accepted for its dependants (DESIGN 5/C02)"],
    },
    "C03": {
        "level": "exploration",
        "parts": [{"engine": "sched", "profile": "c03", "weight": 1}, {"engine": "sched", "profile": "c03f", "weight": 1}],
        "rule": "fault-free worlds as C01 (bounded liveness: Schedule returns within 60 s simulated after the last completion; run count per stage == model) plus cancelled worlds: Cancel from a separate goroutine at a seeded step with 0..n tasks in flight, a second Cancel, Cancel after return, stage-condition error (missing binary). distinct = canonical event-log hash; non-trivial = >=2 tasks in flight together or >=1 fault fired",
        "assumptions": _SCHED_ASSUME,
    },
    "C04": {
        "level": "exploration",
        "parts": [{"engine": "sched", "profile": "c04", "weight": 1}],
        "rule": "barrier workload on the C01 worlds: no task is completed until every stage the reference model calls eligible is in flight (parked at goroutine start or inside Run); checked whenever the eligible set may have changed, nested pipelines included; bound 60 s simulated. distinct = canonical event-log hash; non-trivial = >=2 tasks in flight together",
        "assumptions": _SCHED_ASSUME,
    },
}


_TXT = {
    "C01": ("exploration", "Seeded exploration of (DAG, outcomes, completion order): every DAG shape on <=4 stages is covered by index, random larger ones beyond; an online monitor on the simulator's own history flags any Run entry whose dependencies have not finished. A clean batch is evidence over the sampled schedules, not a proof.",
            "trusts the simulator (controller, stub Runner) and testing/synctest; interleavings are explored at park points and scheduler passes only"),
    "C02": ("exploration", "Every sampled schedule of every sampled world must reproduce the outcome vector of a pure reference model, and the 4 schedules of one world must agree with each other; this is exactly the statement's 'determined by graph and outcomes alone' over the sampled space.",
            "reference model written from the statement (not from the code); ambiguous clause handled by accepting both readings"),
    "C03": ("exploration", "Bounded liveness in simulated time (Schedule must return within 60 s after the last completion) plus run-count == model, with and without Cancel / condition-error faults injected at seeded steps.",
            "liveness is bounded, not proven; the fault-free part assumes the controller's fairness (every parked task is eventually released)"),
    "C04": ("exploration", "Barrier workload: the controller refuses to complete any task until all model-eligible stages are in flight, so a scheduler that serialises independent stages deadlocks in simulated time and is reported.",
            "eligibility is computed by the reference model from the simulator's history; bound is simulated time, so a slower polling pause is not an alarm"),
}
for _k, (_lvl, _t, _n) in _TXT.items():
    PROPS[_k]["level_text"] = _t
    PROPS[_k]["level_note"] = _n

NOT_APPLICABLE = [
    {"property_id": "C05", "reason": "cycle detection is a pure function of the edge set and declaration order: no schedule, clock, I/O or fault for a simulator to vary (the SCHED generator only counts wrongful rejections in its evidence)"},
    {"property_id": "C09", "reason": "env/dir precedence is a pure function of configuration and parent environment; nothing to schedule or inject"},
    {"property_id": "C10", "reason": "variable/argument precedence is a pure function of configuration and argv"},
    {"property_id": "C15", "reason": "quantifier is over byte strings; the loader is synchronous and reads whole files, no timed fault or I/O seam"},
    {"property_id": "C16", "reason": "format equivalence of three decoders is pure"},
    {"property_id": "C17", "reason": "import closure is a pure function of a directory tree; termination is recursion on a finite structure, not a schedule"},
    {"property_id": "C18", "reason": "load-time reference validation is pure; needs malformed inputs, not schedules or faults"},
    {"property_id": "C06", "reason": "TEMPORARY: INTEG engine under construction (claimed in DESIGN.md)"},
    {"property_id": "C07", "reason": "TEMPORARY: INTEG engine under construction (claimed in DESIGN.md)"},
    {"property_id": "C08", "reason": "TEMPORARY: INTEG engine under construction (claimed in DESIGN.md)"},
    {"property_id": "C11", "reason": "TEMPORARY: INTEG engine under construction (claimed in DESIGN.md)"},
    {"property_id": "C12", "reason": "TEMPORARY: INTEG engine under construction (claimed in DESIGN.md)"},
    {"property_id": "C13", "reason": "TEMPORARY: INTEG engine under construction (claimed in DESIGN.md)"},
    {"property_id": "C14", "reason": "TEMPORARY: INTEG engine under construction (claimed in DESIGN.md)"},
    {"property_id": "C19", "reason": "TEMPORARY: INTEG engine under construction (claimed in DESIGN.md)"},
    {"property_id": "C20", "reason": "TEMPORARY: WATCH engine under construction (claimed in DESIGN.md)"},
]

MANIFEST_TEXT = {
    "engines": [],
    "notes": "All checks: python3 bin/vcheck.py <ID> quick|thorough (VERIF_SEED seeds the batch, VERIF_BUDGET_S overrides the time budget, VERIF_WORKERS the process count). Known findings: /verif/known_findings.json. Design: /verif/DESIGN.md.",
}

"""Per-property configuration of the simulation checks (engines, profiles, budgets, evidence text)."""

REAL_VS_STUB = {
    "real_code": [
        "pkg/scheduler (Schedule loop, checkStatus, runStage, nested pipelines, Cancel)",
        "pkg/runner (TaskRunner.Run/Cancel/Finish, hooks, compiler, ExecutionContext) in INTEG/CLI/WATCH engines",
        "pkg/executor + mvdan.cc/sh parser/interpreter (expansion, builtins, exit-status plumbing) in INTEG/CLI/WATCH engines",
        "pkg/output decorators, pkg/variables, pkg/task",
        "stage conditions: real os/exec of /bin/true, /bin/false, a missing path",
    ],
    "rewritten_in_the_simulated_build": [
        "taskctl's own sync.Mutex / sync.RWMutex / sync.Once -> channel-based equivalents (sim/vsync), so that lock waits are durable blocks in the synctest bubble",
        "pkg/scheduler: `range g.Nodes()` -> seeded visiting order (hook verifNodes) with inactive yield points at every visit",
        "every top-level function of pkg/* and internal/*: a preemption point at its entry (inactive unless the controller armed it for the goroutine it just released)",
        "cmd/taskctl: `<-cancel` of the cancel listener goroutines -> a wait point: after abort() the controller decides when and in which order they act",
        "github.com/briandowns/spinner (cockpit format): replaced by a copy whose sync.RWMutex is the channel-based lock and whose function entries are preemption points; its goroutine runs when the fake clock reaches its next frame",
    ],
    "stubs": [
        "external process execution: interp.ExecHandler replaced by the simulated process layer (exit status, output chunks, stall, interrupt behaviour chosen by the controller)",
        "clock: testing/synctest fake clock, advanced only by the controller",
        "SCHED engine: runner.Runner is a controlled stub (parks at Run entry, outcome from the world)",
        "main() / signal handling: CLI entered at makeApp().Run(args)",
    ],
}

_SCHED_ASSUME = [
    "sampling, not proof: seeded search over worlds, completion orders and fault instants",
    "goroutine interleavings are explored at park points (stage goroutine start, Runner.Run entry/exit) and at scheduler passes; Go map iteration order inside one pass is runtime-chosen and neutralised by canonical (sorted) observation",
    "the Runner is a stub in this engine; the real TaskRunner is exercised by the INTEG engine",
]

PROPS = {
    "C01": {
        "level": "exploration",
        "parts": [{"engine": "sched", "profile": "c01", "weight": 4}, {"engine": "integ", "profile": "c06", "weight": 1}, {"engine": "fault", "profile": "c13", "weight": 1}, {"engine": "fault", "profile": "c08", "weight": 1}],
        "rule": "worlds: every DAG shape on 1..4 stages by index (x declaration order, outcomes, allow_failure, conditions, nested pipeline drawn per world), random DAGs beyond (a nested pipeline reuses the stage names of the pipeline around it in a third of the cases; every 16th world has 8..12 stages that each nest a pipeline, every 16th one pipeline nested by two stages with likely failures inside); each world under 4 seeded schedules (which parked stage goroutine / Run call proceeds next, passes in between; in a third of the worlds a stage goroutine whose task just returned may be held before one of its next 12 statements - e.g. between its two status stores - while scheduling passes go on). distinct = canonical event-log hash (timestamps removed, events of one quiescence sorted); non-trivial = at least two stage tasks in flight together at some point. INTEG part (real TaskRunner over simulated processes, the C06 pipeline worlds): no command of a stage starts before every command of each dependency has ended; also in the C13 timeout worlds (dependant of a task whose command overruns its timeout and ignores the interrupt until killed)",
        "assumptions": _SCHED_ASSUME,
    },
    "C02": {
        "level": "exploration",
        "cross_outcome": True,
        "parts": [{"engine": "sched", "profile": "c02", "weight": 6}, {"engine": "integ", "profile": "c07", "weight": 2}, {"engine": "cli", "profile": "cli", "weight": 1}],
        "rule": "same worlds as C01; final status of every stage, executed set and Schedule error compared with a pure reference model per run, and final outcome vectors of the 4 schedules of one world compared with each other; INTEG part (C07 worlds, real TaskRunner): stage statuses, executed set and Schedule error == model. distinct = canonical event-log hash; non-trivial = >=2 tasks in flight together",
        "assumptions": _SCHED_ASSUME + ["a stage with a false condition below an un-allowed failure: both readings of the statement are accepted for its dependants (DESIGN 5/C02)"],
    },
    "C03": {
        "level": "exploration",
        "parts": [{"engine": "sched", "profile": "c03", "weight": 2}, {"engine": "sched", "profile": "c03f", "weight": 2}, {"engine": "fault", "profile": "c12", "weight": 2}, {"engine": "fault", "profile": "c13", "weight": 1}, {"engine": "integ", "profile": "c06", "weight": 1}, {"engine": "fault", "profile": "c06s", "weight": 1}, {"engine": "fault", "profile": "c14", "weight": 1}],
        "rule": "fault-free worlds as C01 (bounded liveness: Schedule returns within 60 s simulated after the last completion; run count per stage == model) plus cancelled worlds: Cancel from a separate goroutine at a seeded step with 0..n tasks in flight, a second Cancel, Cancel after return, stage-condition error (missing binary); INTEG part: the C12 cancellation enumeration with the real TaskRunner (Schedule must return, nothing left Running, no task run twice, process survives); plus fault-free and timeout worlds with the real runner (C06 / C13 worlds: no stage left Waiting after an uncancelled run, no task run twice). distinct = canonical event-log hash; non-trivial = >=2 tasks in flight together or >=1 fault fired",
        "assumptions": _SCHED_ASSUME,
    },
    "C04": {
        "level": "exploration",
        "parts": [{"engine": "sched", "profile": "c04", "weight": 2}, {"engine": "fault", "profile": "c04i", "weight": 1}],
        "rule": "barrier workload on the C01 worlds: no task is completed until every stage the reference model calls eligible is in flight (parked at goroutine start or inside Run); checked whenever the eligible set may have changed, nested pipelines included; bound 2.5 s simulated = 25000 polling passes. INTEG part (real TaskRunner, executor, interpreter): pipelines of parallel / chained stages, half of them with several stages sharing one task, many with tasks of different stages sharing an execution context with before / after hooks (no up commands), every command first printing progress text (half of it without a line end); every goroutine that merely waits to be scheduled is let go, then every stage whose dependencies are satisfied must have a simulated process in flight before any process is completed. distinct = canonical event-log hash; non-trivial = >=2 tasks in flight together",
        "assumptions": _SCHED_ASSUME,
    },
}


_INTEG_ASSUME = [
    "sampling, not proof: seeded search over worlds, completion orders and fault instants",
    "external processes are simulated at the interp.ExecHandler seam (exit status, output chunks, duration, reaction to the interrupt); the real fork/SIGINT/SIGKILL path of mvdan/sh's DefaultExecHandler is modelled, not executed",
    "a process that reacts to the interrupt by exiting 0 by itself is outside the modelled shapes (die at once / ignore until killed after <=2 s)",
    "interleavings are explored at park points: every exec step, stage goroutine start, Run entry, Up entry; plain memory races between park points are visible only through their effects",
]

PROPS.update({
    "C06": {
        "level": "exploration",
        "parts": [{"engine": "integ", "profile": "c06", "weight": 3}, {"engine": "fault", "profile": "c06s", "weight": 1}, {"engine": "watch", "profile": "c20", "weight": 1}, {"engine": "fault", "profile": "c13", "weight": 1}],
        "rule": "worlds: 1..3 (thorough 5) tasks with <=3 commands x <=3 variations (one of them possibly the empty variation `{}`), before/after hooks, condition, allow_failure, run directly (parallel or sequential drivers) or as stages of a seeded DAG; exit status of every exec drawn per world (0 mostly, else 1..255, command-not-found), durations seeded; in 2% of the worlds one command prints 1.1..1.5 MiB. Oracle: per-task exec history == reference sequencing model, no two execs of one task overlap. Second part: one task shared by 2..4 stages (config-loader built), each stage with its own injected condition / hook / command results - every stage's execution must follow the model fed with that stage's results (a second use must re-evaluate everything). Third part (WATCH engine): the watcher re-runs one task (1 command, 1..2 after commands) for every event, each run's command exit status seeded: every run executes command then - iff it succeeded - the after commands, whatever earlier runs of the task did. distinct = canonical event-log hash; non-trivial = >=2 simulated processes alive together or >=1 non-zero exit injected",
        "assumptions": _INTEG_ASSUME,
    },
    "C07": {
        "level": "exploration",
        "real_binary_smoke": True,
        "parts": [{"engine": "integ", "profile": "c07", "weight": 4}, {"engine": "cli", "profile": "cli", "weight": 2}, {"engine": "fault", "profile": "c13", "weight": 1}, {"engine": "fault", "profile": "c12", "weight": 1}, {"engine": "fault", "profile": "c06s", "weight": 1}],
        "rule": "indices 0..1535: every exit status 0..255 at each of 3 command positions, with and without allow_failure, directly or as a stage; beyond: random C06-style worlds with more failures, 15% of them with an execution context (half of those with a failing `up` command: none of its tasks can run, each must report the error - the first user and the later ones alike). Third part: the C13 timeout worlds (a task whose command was killed by its timeout failed: reporting success is a C07 violation too). Oracle: Task.Errored/ExitCode/Skipped, error returned by Run/Schedule and stage statuses == model. CLI part: generated configuration file + argv of 1..4 targets (tasks and pipelines in any order, root action or `run`, optional `-- args` containing a task name; in a fifth of the worlds an earlier target is a pipeline that nests a later target - which is then not run again and has failed exactly if it failed inside) through the in-process command line: targets execute in argv order without overlap, nothing of a later target starts after the first failing one, error returned iff a target failed, unrequested tasks never run. distinct = canonical event-log hash; non-trivial = >=2 processes alive together or >=1 non-zero exit",
        "assumptions": _INTEG_ASSUME + ["CLI part: entered at makeApp().Run(argv) in-process; main()'s error -> exit status 1 mapping (5 lines) is not executed"],
    },
    "C11": {
        "level": "exploration",
        "parts": [{"engine": "integ", "profile": "c11", "weight": 3}, {"engine": "fault", "profile": "c06s", "weight": 1}],
        "rule": "producers with several commands/variations writing seeded byte strings (empty, multi-line, CRLF, unicode, quoting hazards, up to 64 KiB) in seeded chunkings, some stderr chunks interleaved, 12% of the tasks declared interactive; task names over a printable-ASCII alphabet (mangled names kept distinct), with/without exportAs; consumers at seeded DAG positions; {{.Output}} chaining with shell-safe words. Second part (c06s worlds: one task shared by 2..4 stages, built by the config loader, every stage's execution printing its own lines): each stage's captured output == what its own execution wrote. Oracle: Task.Output() byte-exact; every exec of a direct dependant sees <NAME>_OUTPUT / exportAs == producer stdout; chained command argv == previous command's output. distinct = canonical event-log hash; non-trivial as C06",
        "assumptions": _INTEG_ASSUME,
    },
    "C12": {
        "level": "fault_enumeration",
        "real_binary_signal": True,
        "parts": [{"engine": "fault", "profile": "c12", "weight": 3}, {"engine": "sched", "profile": "c12s", "weight": 1}, {"engine": "cli", "profile": "cli12", "weight": 1}],
        "rule": "for each sampled world (1..4 parallel tasks + 0..3 waiting stages, hooks, conditions, contexts (an `up` command fails with p=1/8: its tasks fail before running anything and a later Cancel must still return), processes that die at once or ignore the interrupt until killed) and its base schedule, Cancel is injected at EVERY controller step index 0..23 (index mod 24; beyond the end of the run = after everything returned), via TaskRunner.Cancel or Scheduler.Cancel, optionally a second Cancel, or from a stage-condition error (also in the middle of the run: a nested pipeline whose stage condition cannot be evaluated is started while 1..3 stages outside and 0..2 inside it have long commands in flight - every sixth world); SCHED part: same enumeration (16 positions) against the stub Runner; CLI part: abort() - what the signal handler calls - at every step of command-line runs of 1..4 targets (the application's own cancel goroutines drive TaskRunner.Cancel and Scheduler.Cancel; when and in which order they act after abort() is a seeded choice): the invocation returns, running commands are interrupted, an interrupted invocation returns an error. distinct = canonical event-log hash; all runs are non-trivial (a fault fires in each)",
        "assumptions": _INTEG_ASSUME + ["condition and context service commands run under context.Background() by design and are exempt from 'terminates the commands that are running'", "main()'s signal handler (abort() followed by os.Exit) is outside the simulation; it is probed once per check with the real binary and a real signal (real_binary_signal_probe in the evidence; known finding D10)"],
    },
    "C08": {
        "level": "exploration",
        "parts": [{"engine": "fault", "profile": "c08", "weight": 1}],
        "rule": "worlds: a configuration file (written per run, loaded by the real config loader) with one shared task (1..3 env names, 1..3 variables used as argv, optional dir - literal or a template over a variable the stages override) and 2..4 (thorough 6) stages overriding random subsets of env/variables/dir, arranged parallel / chained / mixed, optionally a second pipeline and a direct run of the task in the same process, drivers run in sequence; in a third of the worlds the task has before/after hooks (also using the shell idiom NAME=${NAME:-x}) that must see the stage's values too. Schedule space: order in which stage goroutines parked at goroutine start and at Run entry proceed, and process completion order. Oracle at every exec: each namespaced env name, variable (argv) and dir == this stage's override, else the task's own value; a leaking value is attributed to the stage it came from. distinct = canonical event-log hash; all runs non-trivial (every world has >=2 users of the task)",
        "assumptions": _INTEG_ASSUME + ["names live in a namespace no other level defines, so no other layering rule is involved", "execs are attributed to stages by goroutine id"],
    },
    "C19": {
        "level": "exploration",
        "cross_outcome": True,
        "parts": [{"engine": "fault", "profile": "c19", "weight": 5}, {"engine": "fault", "profile": "c06s", "weight": 1}],
        "rule": "worlds: 1..5 (thorough 8) tasks, each one simulated process writing a seeded stream (lines of 0..10000 bytes, LF / CRLF / lone CR, well-formed CSI sequences, unicode, digits and brackets next to sequences, unterminated tail, also ending inside an escape introducer that never completes) cut into write calls at seeded points (also inside CRLF, a CSI sequence or a rune), a share of chunks on stderr; chunk writes of different tasks interleaved one at a time by the controller; task outcomes success / failure / skipped / failing before-hook; one task in eight is interactive (it owns the terminal: its bytes pass unchanged under every format - and only its); every world is run under raw, prefixed and cockpit (index mod 3); a third of the worlds preempt goroutines at function entries of taskctl and of the spinner (cockpit: 40% of releases, within 80 entries). Oracles: the run returns (a lock cycle between cockpit and spinner is a deadlock: rule=deadlock, with the waiting goroutines' call chains); raw sink == chunks in delivery order; prefixed: every sink write is one whole line carrying the name of the task whose chunk is being delivered, per-task payload == stream after removing terminators and CSI sequences; result fields equal across the three formats; no crash. distinct = canonical event-log hash; all runs non-trivial",
        "assumptions": _INTEG_ASSUME + ["hooks print nothing in these worlds (their output bypasses the decorator by design)", "briandowns/spinner (cockpit format) takes part in the simulation with its lock rewritten and its function entries as preemption points; its goroutine runs when the fake clock reaches its next frame; data races on its unsynchronised fields are out of reach"],
    },
    "C20": {
        "level": "exploration",
        "real_binary_watch": True,
        "parts": [{"engine": "watch", "profile": "c20", "weight": 1}],
        "rule": "worlds: a real temporary tree (<=4 directories on 3 levels, <=10 files), 1..3 include and 0..2 exclude patterns from the grammar (literal, *, ?, ** as a whole segment), a subset of the five event names (or none = all), built by the real watch.NewWatcher; a history of 1..4 (thorough 6) injected fsnotify events (create/write/remove/rename/chmod, also combined and zero ops as noise) on observed paths or children of observed directories, a quarter of them arriving while the previously triggered run is still executing; fake 1 s poll. a third of the worlds give the task a timeout that some runs exceed (a failed run like any other). Oracles: selected path set == reference matcher (set-up invariant, pure part); number of watches the real inotify instance behind the watcher holds (read from /proc/self/fdinfo) == number of selected paths, and it does not grow when a create event arrives for an unselected file of an observed directory; per event: the task ran exactly once more with EventName/EventPath of that event iff its type is subscribed; every event is taken from the channel (keeps serving); initial run once; in a third of the runs a second watcher (same patterns, own task) is started on the same TaskRunner after the first was closed: it runs its task once and serves a subscribed event. distinct = canonical event-log hash; non-trivial = world with >=1 observed path and >=1 event",
        "assumptions": ["event delivery by inotify and fsnotify's reader are not exercised: events are injected into the channel the watcher polls; registration with the kernel IS observed (real inotify_add_watch calls, counted through /proc/self/fdinfo)", "events are only injected for observed paths (the kernel would not deliver others)", "combined / zero ops are injected but not constrained (the statement does not say which type they are)", "the `watch` command line (several watchers named at once) is outside the simulation: probed once per check with the real binary and real inotify (real_binary_watch_probe in the evidence)", "sampling, not proof"],
    },
    "C14": {
        "level": "exploration",
        "parts": [{"engine": "fault", "profile": "c14", "weight": 3}, {"engine": "cli", "profile": "cli", "weight": 2}, {"engine": "fault", "profile": "c12", "weight": 1}, {"engine": "fault", "profile": "c08", "weight": 1}],
        "rule": "worlds: 1..3 contexts with 0..2 up/down/before/after service commands (up fails with p=0.1, down with p=0.2 per command), 1..5 (thorough 8) tasks spread over them with/without before/after/condition/allow_failure and failing commands, started simultaneously, one after another, or as parallel/chained stages; Finish called once or twice; Under a cancellation (c12 part) the pairing is still demanded: an execution whose before hook ran gets its after hook. Fourth part (c08 worlds, config-loader built): the shared task's context must surround every stage's execution of it, whatever the stage overrides (dir, env, variables). CLI part: the CLI worlds of C07 with 0..2 contexts (down exactly once at shutdown, after all tasks of all targets, for used contexts, whether the targets succeeded or failed). Schedule space: which goroutine parked at Run entry / Up entry / inside a command proceeds next, including releasing further tasks into Up() while `up` is still running (limbo fast-forward). distinct = canonical event-log hash; all runs non-trivial",
        "assumptions": _INTEG_ASSUME + ["a skipped task may have zero or one before/after hook block; a context whose up failed may or may not get its down commands (statement silent)", "context hook commands are attributed to task executions by goroutine id"],
    },
    "C13": {
        "level": "fault_enumeration",
        "real_binary_timeout": True,
        "parts": [{"engine": "fault", "profile": "c13", "weight": 1}],
        "rule": "for each sampled task (timeout 100ms..1s, <=3 commands, variations, before/after hooks, allow_failure on/off) the overrunning command is placed at EVERY position (index mod 64 -> position x shape) with shapes: finishes 1 ms before the deadline, stalls and dies on interrupt, ignores the interrupt until killed (1 ms..2 s), overruns by a margin, shell while-loop around the command, none. Fake clock: deadlines compared exactly. As a stage of a pipeline the timed-out task's stage must end Error (Done with stage allow_failure) - not Canceled - and Schedule must report the failure. distinct = canonical event-log hash; all runs non-trivial",
        "assumptions": _INTEG_ASSUME + ["the interrupt-then-kill behaviour of mvdan/sh's DefaultExecHandler is modelled in the simulation and probed once per check with the real binary (real_binary_timeout_probe in the evidence)"],
    },
})

_TXT = {
    "C01": ("exploration", "Seeded exploration of (DAG, outcomes, completion order): every DAG shape on <=4 stages is covered by index, random larger ones beyond; an online monitor on the simulator's own history flags any Run entry whose dependencies have not finished. A clean batch is evidence over the sampled schedules, not a proof.",
            "trusts the simulator (controller, stub Runner) and testing/synctest; interleavings are explored at park points and scheduler passes only"),
    "C02": ("exploration", "Every sampled schedule of every sampled world must reproduce the outcome vector of a pure reference model, and the 4 schedules of one world must agree with each other; this is exactly the statement's 'determined by graph and outcomes alone' over the sampled space.",
            "reference model written from the statement (not from the code); ambiguous clause handled by accepting both readings"),
    "C03": ("exploration", "Bounded liveness in simulated time (Schedule must return within 60 s after the last completion) plus run-count == model, with and without Cancel / condition-error faults injected at seeded steps.",
            "liveness is bounded, not proven; the fault-free part assumes the controller's fairness (every parked task is eventually released)"),
    "C04": ("exploration", "Barrier workload: the controller refuses to complete any task until all model-eligible stages are in flight, so a scheduler that serialises independent stages deadlocks in simulated time and is reported.",
            "eligibility is computed by the reference model from the simulator's history; bound is simulated time, so a slower polling pause is not an alarm"),
}
_TXT.update({
    "C06": ("exploration", "The real runner, compiler, executor and shell interpreter execute generated tasks over simulated processes whose exit statuses are injected; the complete per-task exec history is compared with a reference sequencing model while sibling tasks interleave.", "reference model written from the statement; behaviour after a failing `after` hook is left unconstrained (statement silent)"),
    "C07": ("exploration", "Every exit status at every command position is injected (systematic part) and the reported fields, returned errors and stage statuses are compared with the model; random worlds add hooks, conditions, pipelines.", "a failing before-hook must make Run return an error; Errored/ExitCode are not compared in that case (statement speaks about commands)"),
    "C11": ("exploration", "Byte-exact comparison of captured output with what the simulated processes wrote, and of the environment every dependant's commands actually receive, across DAG positions and completion orders.", "only direct dependants are constrained; values travel through the real env/interpreter path"),
    "C12": ("fault_enumeration", "Cancel is injected at every step index of each sampled run (plus before the run, after it, twice, via a condition error); rules: process survives, Cancel returns, run returns, running commands interrupted, nothing starts after Cancel returned, no interrupted/unstarted task reports success.", "enumeration is over controller steps of sampled worlds and schedules, not over all worlds"),
    "C08": ("exploration", "Real config loader + scheduler + runner over one shared task object; what every simulated process actually receives (env, argv, dir) is compared with 'task settings overlaid by this stage's overrides' for overlapping and sequential stages, a second pipeline and a direct run.", "sampled configurations and schedules"),
    "C19": ("exploration", "The real decorators and TaskOutput tee receive seeded streams in seeded chunkings from up to 8 interleaved simulated processes; the recording sink is compared with a stripping model write by write; each world is repeated under the three formats and the recorded task results must agree; a panic in the output layer kills the worker and is attributed to the seed.", "reference CSI stripper covers the generated well-formed sequences only; comparison uses the reading most favourable to the implementation (terminators removed before sequences)"),
    "C20": ("exploration", "The real watcher loop, event filter, handle() and TaskRunner run on the fake clock against injected event histories; what the simulated task processes receive (EventName/EventPath) decides. The path-selection half of the statement is a pure function and is checked as a set-up invariant against a reference glob matcher on every generated tree.", "event delivery by the kernel is stubbed; the reference matcher covers the generated pattern grammar only"),
    "C14": ("exploration", "Hook exec history per context compared with the statement: up once and finished before anything else of the context (also for tasks racing into Up while it runs), before/after exactly once around each task execution (per-goroutine pattern), down once at Finish for used contexts only.", "sampled worlds and schedules"),
    "C13": ("fault_enumeration", "The overrunning command is placed at every position of each sampled task under six process shapes; deadlines are compared exactly on the fake clock (start+timeout per command).", "positions x shapes are enumerated per sampled task; tasks and timeouts are sampled"),
})
for _k, (_lvl, _t, _n) in _TXT.items():
    PROPS[_k]["level_text"] = _t
    PROPS[_k]["level_note"] = _n

NOT_APPLICABLE = [
    {"property_id": "C05", "reason": "cycle detection is a pure function of the edge set and declaration order: no schedule, clock, I/O or fault for a simulator to vary (the SCHED generator only counts wrongful rejections in its evidence)"},
    {"property_id": "C09", "reason": "env/dir precedence is a pure function of configuration and parent environment; nothing to schedule or inject"},
    {"property_id": "C10", "reason": "variable/argument precedence is a pure function of configuration and argv"},
    {"property_id": "C15", "reason": "quantifier is over byte strings; the loader is synchronous and reads whole files, no timed fault or I/O seam"},
    {"property_id": "C16", "reason": "format equivalence of three decoders is pure"},
    {"property_id": "C17", "reason": "import closure is a pure function of a directory tree; termination is recursion on a finite structure, not a schedule"},
    {"property_id": "C18", "reason": "load-time reference validation is pure; needs malformed inputs, not schedules or faults"},
]

MANIFEST_TEXT = {
    "engines": [],
    "notes": "All checks: python3 bin/vcheck.py <ID> quick|thorough (VERIF_SEED seeds the batch, VERIF_BUDGET_S overrides the time budget, VERIF_WORKERS the process count). Known findings: /verif/known_findings.json. Design: /verif/DESIGN.md.",
}

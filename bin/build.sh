#!/bin/bash
# Build the simulator worker binary from $VERIF_REPO's current working tree (default /repo)
# with the verif hooks enabled. Harness sources in /verif/sim and /verif/glue are overlaid into
# the taskctl module (virtual package internal/verifsim + a test file in cmd/taskctl).
set -euo pipefail
VERIF=$(cd "$(dirname "$0")/.." && pwd)
REPO=${VERIF_REPO:-/repo}
OUT=${VERIF_BUILD:-$VERIF/build}
mkdir -p "$OUT"
export GOTOOLCHAIN=local GOFLAGS=-mod=mod GOPROXY=off GOSUMDB=off GONOSUMDB=* GONOSUMCHECK=1 GOFLAGS=-mod=mod
GO=${VERIF_GO:-go1.26.8}
cp "$REPO/go.mod" "$OUT/go.mod"
cp "$REPO/go.sum" "$OUT/go.sum"
python3 - "$VERIF" "$REPO" "$OUT" <<'PY'
import json, os, re, shutil, subprocess, sys
verif, repo, out = sys.argv[1:4]
rep = {}
for f in sorted(os.listdir(os.path.join(verif, "sim"))):
    if f.endswith(".go"):
        rep[os.path.join(repo, "internal/verifsim", f)] = os.path.join(verif, "sim", f)
for f in sorted(os.listdir(os.path.join(verif, "sim", "vsync"))):
    if f.endswith(".go"):
        rep[os.path.join(repo, "pkg/verifvsync", f)] = os.path.join(verif, "sim", "vsync", f)
# Source rewrite (simulated build only, /repo is not touched): taskctl's own sync.Mutex / RWMutex /
# Once become channel-based equivalents, so that a goroutine waiting for a lock is durably
# blocked in the synctest bubble (see sim/vsync/vsync.go). VERIF_NO_VSYNC=1 disables it.
# (the package lives outside internal/ so that the rewritten third-party spinner can import it too)
VSYNC_IMPORT = 'vsync "github.com/taskctl/taskctl/pkg/verifvsync"'
rw = os.path.join(out, "rewrite")
shutil.rmtree(rw, ignore_errors=True)
nrw = 0
if os.environ.get("VERIF_NO_VSYNC") != "1":
    pat = re.compile(r"\bsync\.(Mutex|RWMutex|Once)\b")
    order_pat = re.compile(r"range (\w+)\.Nodes\(\)")
    norder = 0
    fn_pat = re.compile(r"^func (\((\w+ )?\*?\w+\) )?(\w+)\([^\n]*\{[ \t]*\n", re.M)
    npre = 0
    nwait = 0
    nstmt = 0
    stmt_tool = ""
    if os.environ.get("VERIF_NO_PREEMPT") != "1" and os.environ.get("VERIF_NO_STMT") != "1":
        stmt_tool = os.path.join(out, "stmtpoints")
        r = subprocess.run([os.environ.get("VERIF_GO", "go1.26.8"), "build", "-o", stmt_tool, os.path.join(verif, "tools", "stmtpoints", "main.go")], stdout=subprocess.PIPE, stderr=subprocess.STDOUT, text=True)
        if r.returncode != 0:
            sys.exit("building tools/stmtpoints failed: " + r.stdout)
    for top in ("pkg", "internal", "cmd"):
        for dp, dn, fn in os.walk(os.path.join(repo, top)):
            if "verifsim" in dp or "verifvsync" in dp:
                continue
            for f in fn:
                if not f.endswith(".go") or f.endswith("_test.go"):
                    continue
                src = open(os.path.join(dp, f)).read()
                new = src
                # (2) the visiting order of a scheduling pass becomes a seeded choice (hook verifNodes)
                if dp.endswith("pkg/scheduler") and not f.startswith("verif_"):
                    new, nord = order_pat.subn(r"range verifNodes(\1.Nodes())", new)
                    norder += nord
                    # (3) every visit of a stage by a scheduling loop is a (normally inactive) yield point
                    new = re.sub(r"(for _, (\w+) := range verifNodes\(\w+\.Nodes\(\)\) \{\n)", r'\1verifYield("sched-visit", \2)\n', new)
                uses_vsync = False
                # (8) pkg/runner: Finish takes the contexts down in sync.Map order -> a seeded order
                if dp.endswith("pkg/runner") and re.search(r"\b(\w+\.cleanupList)\.Range\(", new):
                    new = re.sub(r"\b(\w+\.cleanupList)\.Range\(", r"vsync.RangeSorted(&\1, ", new)
                    uses_vsync = True
                # (5) cmd/taskctl's cancel listeners (`<-cancel` then Cancel): which of them acts first, and
                # when, relative to the run they cancel, becomes a decision of the simulator
                if top == "cmd" and re.search(r"^\t+<-cancel$", new, re.M):
                    new, nwp = re.subn(r"^(\t+)<-cancel$", r'\1vsync.WaitPoint(cancel, "%s")' % f[:-3], new, flags=re.M)
                    nwait += nwp
                    uses_vsync = True
                if pat.search(new):
                    new = pat.sub(r"vsync.\1", new)
                    uses_vsync = True
                    new += "\n// keeps both imports in use after the rewrite\nvar _ sync.Locker = (*vsync.Mutex)(nil)\n"
                # (4) a preemption point at the entry of every top-level function / method
                if os.environ.get("VERIF_NO_PREEMPT") != "1" and not f.startswith("verif_") and top != "cmd":
                    pkgname = os.path.basename(dp)
                    def addp(m):
                        global npre
                        name = m.group(3)
                        if name in ("init", "main"):
                            return m.group(0)
                        npre += 1
                        return m.group(0) + '\tvsync.Preempt("%s.%s")\n' % (pkgname, name)
                    new2 = fn_pat.sub(addp, new)
                    if new2 != new:
                        new = new2
                        uses_vsync = True
                if uses_vsync:
                    imp = VSYNC_IMPORT
                    if re.search(r"^import \(", new, re.M):
                        new = re.sub(r"^import \(", "import (\n\t" + imp, new, count=1, flags=re.M)
                    elif re.search(r'^import "[^"]+"', new, re.M):
                        new = re.sub(r'^import ("[^"]+")', 'import (\n\t\\1\n\t' + imp + '\n)', new, count=1, flags=re.M)
                    else:
                        new = re.sub(r"^(package \w+\n)", '\\1\nimport ' + imp + '\n', new, count=1, flags=re.M)
                if new == src:
                    continue
                dst = os.path.join(rw, os.path.relpath(os.path.join(dp, f), repo))
                os.makedirs(os.path.dirname(dst), exist_ok=True)
                open(dst, "w").write(new)
                # (7) a preemption point before every statement (go/ast pass over the result)
                if stmt_tool and top != "cmd" and not f.startswith("verif_"):
                    r = subprocess.run([stmt_tool, dst, os.path.basename(dp), dst], stdout=subprocess.PIPE, stderr=subprocess.PIPE, text=True)
                    if r.returncode != 0:
                        sys.exit("stmtpoints failed on %s: %s" % (dst, r.stderr))
                    nstmt += int(r.stdout.strip() or 0)
                rep[os.path.join(dp, f)] = dst
                nrw += 1
    # (6) the third-party spinner behind the cockpit format takes part in the simulation: its lock
    # becomes a vsync lock (a goroutine waiting for it is durably blocked, so a lock cycle between
    # the cockpit and the spinner is seen as a deadlock instead of freezing the bubble) and its
    # function entries are preemption points
    nspin = 0
    modcache = subprocess.run([os.environ.get("VERIF_GO", "go1.26.8"), "env", "GOMODCACHE"], stdout=subprocess.PIPE, text=True).stdout.strip()
    m = re.search(r"^\s*github.com/briandowns/spinner (\S+)", open(os.path.join(repo, "go.mod")).read(), re.M)
    if m and modcache and os.environ.get("VERIF_NO_SPINNER") != "1":
        spdir = os.path.join(modcache, "github.com/briandowns/spinner@" + m.group(1))
        sp = os.path.join(spdir, "spinner.go")
        if os.path.exists(sp):
            src = open(sp).read()
            new = pat.sub(r"vsync.\1", src)
            if os.environ.get("VERIF_NO_PREEMPT") != "1":
                def addsp(mm):
                    # only the entries of the exported API (what taskctl calls): the library's own
                    # internals - e.g. erase(), which runs inside Stop's critical section - stay atomic
                    # (a race between Stop and the spinner's loop is the library's, see DESIGN 11.14)
                    if not mm.group(3)[:1].isupper():
                        return mm.group(0)
                    return mm.group(0) + '\tvsync.Preempt("spinner.%s")\n' % mm.group(3)
                new = fn_pat.sub(addsp, new)
            new += "\n// keeps both imports in use after the rewrite\nvar _ sync.Locker = (*vsync.Mutex)(nil)\n"
            new = re.sub(r"^import \(", "import (\n\t" + VSYNC_IMPORT, new, count=1, flags=re.M)
            if new != src:
                # files of the module cache cannot be overlaid: the build's go.mod copy replaces the
                # module by a rewritten copy of it
                cp = os.path.join(out, "third_party", "spinner")
                shutil.rmtree(cp, ignore_errors=True)
                os.makedirs(cp)
                for f in os.listdir(spdir):
                    if f.endswith(".go") and not f.endswith("_test.go") or f in ("go.mod", "LICENSE"):
                        shutil.copyfile(os.path.join(spdir, f), os.path.join(cp, f))
                open(os.path.join(cp, "spinner.go"), "w").write(new)
                with open(os.path.join(out, "go.mod"), "a") as gm:
                    gm.write("\nreplace github.com/briandowns/spinner => %s\n" % cp)
                nspin = 1
open(os.path.join(out, "rewritten_files"), "w").write(str(nrw))
gen = os.path.join(out, "gen")
os.makedirs(gen, exist_ok=True)
open(os.path.join(gen, "vsync_flag.go"), "w").write("package verifsim\n\n// generated by bin/build.sh: whether taskctl's sync primitives were rewritten to vsync in this build\nconst vsyncActive = %s\n\nconst rewrittenFiles = %d\n\n// number of `range g.Nodes()` loops of pkg/scheduler rewritten to the seeded visiting order\nconst orderedLoops = %d\n\n// number of function entries that got a preemption point\nconst preemptPoints = %d\n\n// number of `<-cancel` waits of cmd/taskctl turned into simulator wait points\nconst waitPoints = %d\n\n// 1 when briandowns/spinner was rewritten to vsync locks\nconst spinnerRewritten = %d\n\n// number of statement-level preemption points\nconst stmtPoints = %d\n" % ("true" if nrw > 0 else "false", nrw, norder if os.environ.get("VERIF_NO_VSYNC") != "1" else 0, npre if os.environ.get("VERIF_NO_VSYNC") != "1" else 0, nwait if os.environ.get("VERIF_NO_VSYNC") != "1" else 0, nspin if os.environ.get("VERIF_NO_VSYNC") != "1" else 0, nstmt if os.environ.get("VERIF_NO_VSYNC") != "1" else 0))
rep[os.path.join(repo, "internal/verifsim", "vsync_flag.go")] = os.path.join(gen, "vsync_flag.go")
for f in sorted(os.listdir(os.path.join(verif, "glue"))):
    if f.endswith(".go"):
        rep[os.path.join(repo, "cmd/taskctl", f)] = os.path.join(verif, "glue", f)
json.dump({"Replace": rep}, open(os.path.join(out, "overlay.json"), "w"), indent=1)
PY
cd "$REPO"
"$GO" test -c -vet=off -tags verif -modfile="$OUT/go.mod" -overlay="$OUT/overlay.json" -o "$OUT/sim.test" ./cmd/taskctl
echo "built $OUT/sim.test from $REPO"

#!/bin/bash
# Build the simulator worker binary from $VERIF_REPO's current working tree (default /repo)
# with the verif hooks enabled. Harness sources in /verif/sim and /verif/glue are overlaid into
# the taskctl module (virtual package internal/verifsim + a test file in cmd/taskctl).
set -euo pipefail
VERIF=$(cd "$(dirname "$0")/.." && pwd)
REPO=${VERIF_REPO:-/repo}
OUT=${VERIF_BUILD:-$VERIF/build}
mkdir -p "$OUT"
export GOTOOLCHAIN=local GOFLAGS=-mod=mod GOPROXY=off GOSUMDB=off GONOSUMDB=* GONOSUMCHECK=1 GOFLAGS=-mod=mod
GO=${VERIF_GO:-go1.26.8}
cp "$REPO/go.mod" "$OUT/go.mod"
cp "$REPO/go.sum" "$OUT/go.sum"
python3 - "$VERIF" "$REPO" "$OUT" <<'PY'
import json, os, sys
verif, repo, out = sys.argv[1:4]
rep = {}
for f in sorted(os.listdir(os.path.join(verif, "sim"))):
    if f.endswith(".go"):
        rep[os.path.join(repo, "internal/verifsim", f)] = os.path.join(verif, "sim", f)
for f in sorted(os.listdir(os.path.join(verif, "glue"))):
    if f.endswith(".go"):
        rep[os.path.join(repo, "cmd/taskctl", f)] = os.path.join(verif, "glue", f)
json.dump({"Replace": rep}, open(os.path.join(out, "overlay.json"), "w"), indent=1)
PY
cd "$REPO"
"$GO" test -c -vet=off -tags verif -modfile="$OUT/go.mod" -overlay="$OUT/overlay.json" -o "$OUT/sim.test" ./cmd/taskctl
echo "built $OUT/sim.test from $REPO"

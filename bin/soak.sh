#!/bin/bash
# Runs every registered quick check with several seeds on the unchanged tree; any non-zero exit is printed.
# usage: soak.sh [seeds...]   (env SOAK_BUDGET_S, default: each check's own quick budget)
cd "$(dirname "$0")/.."
SEEDS=${@:-"1 2 3"}
bad=0
for seed in $SEEDS; do
  for p in $(python3 -c "import json; print(' '.join(c['property_id'] for c in json.load(open('MANIFEST.json'))['checks']))"); do
    out=$(env VERIF_SEED=$seed ${SOAK_BUDGET_S:+VERIF_BUDGET_S=$SOAK_BUDGET_S} VERIF_OUT=${SOAK_OUT:-/var/tmp/soak-out} python3 bin/vcheck.py $p quick 2>&1); rc=$?
    echo "seed=$seed $p exit=$rc $(echo "$out" | grep '^runs=' | cut -c1-120)"
    if [ $rc -ne 0 ]; then bad=1; echo "$out" | grep -v '"stacks"' | cut -c1-1500 | tail -25; fi
  done
done
rm -rf ${SOAK_OUT:-/var/tmp/soak-out}
exit $bad

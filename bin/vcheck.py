#!/usr/bin/env python3
"""Supervisor of the deterministic-simulation checks.

usage: vcheck.py <PROPERTY> quick|thorough
       vcheck.py --replay <file>

Builds the worker binary from /repo's working tree (verif tag on), runs seeded
batches in parallel worker processes, attributes crashes to the seed in
progress, minimises and re-verifies any violation, consults the committed
known-findings file, writes /verif/evidence/<ID>.json and prints

    VIOLATION property=<ID> replay=<path>      (exit 1)
    KNOWN-FINDING: property=<ID> <text>        (exit 0)

Exit 2 = harness trouble (build failure, watchdog, non-reproducible failure);
never reported as a violation.
"""
import json, os, re, subprocess, sys, time, hashlib, threading, tempfile, shutil

VERIF = os.path.dirname(os.path.dirname(os.path.abspath(__file__)))
sys.path.insert(0, os.path.join(VERIF, "bin"))
from vprops import PROPS, REAL_VS_STUB  # noqa: E402

OUT = os.environ.get("VERIF_OUT", VERIF)  # where evidence/ and replays/ go (mutant runs redirect it)
BUILD = os.environ.get("VERIF_BUILD", os.path.join(VERIF, "build"))
BIN = os.path.join(BUILD, "sim.test")
NWORKERS = int(os.environ.get("VERIF_WORKERS", "16"))
CRASH_PROPS = {"C03", "C12", "C19"}


def log(*a):
    print(*a, file=sys.stderr, flush=True)


def build():
    t0 = time.time()
    p = subprocess.run([os.path.join(VERIF, "bin", "build.sh")], stdout=subprocess.PIPE, stderr=subprocess.STDOUT, text=True)
    if p.returncode != 0:
        log(p.stdout)
        log("BUILD FAILED (exit 2: not a verdict)")
        sys.exit(2)
    return time.time() - t0


def sweep_scratch():
    """Removes /var/tmp/vsim-<pid> directories of worker processes that are gone (a crashed worker cannot clean up after itself)."""
    try:
        for d in os.listdir("/var/tmp"):
            if d.startswith("vsim-") and d[5:].isdigit() and not os.path.exists("/proc/" + d[5:]):
                subprocess.run(["rm", "-rf", os.path.join("/var/tmp", d)])
    except OSError:
        pass


def worker_env(gomaxprocs=1):
    env = dict(os.environ)
    env["GODEBUG"] = "asynctimerchan=0"
    env["GOMAXPROCS"] = str(gomaxprocs)
    env["GOTRACEBACK"] = "all"
    env.pop("VSIM_JOB", None)
    return env


def run_worker(job, timeout, gomaxprocs=1, trace_file=None):
    """Runs one worker process to completion; returns (records, returncode, stderr_tail)."""
    env = worker_env(gomaxprocs)
    env["VSIM_JOB"] = json.dumps(job)
    if trace_file:
        env["VSIM_TRACE_FILE"] = trace_file
    try:
        p = subprocess.run([BIN, "-test.run", "^TestVerifWorker$", "-test.timeout", "0"], cwd=VERIF, env=env,
                           stdout=subprocess.PIPE, stderr=subprocess.PIPE, timeout=timeout)
        rc, out, err = p.returncode, p.stdout, p.stderr
    except subprocess.TimeoutExpired as e:
        rc, out, err = -9, e.stdout or b"", e.stderr or b""
    recs = []
    for line in out.decode("utf-8", "replace").splitlines():
        if line.startswith("{"):
            try:
                recs.append(json.loads(line))
            except Exception:
                pass
    return recs, rc, err.decode("utf-8", "replace")


def classify_crash(stderr):
    """taskctl panic / harness panic / spinner hazard."""
    if "spinner.(*Spinner)" in stderr and "panic:" not in stderr:
        return "spinner-hazard"
    m = re.search(r"^(panic: .*|fatal error: .*)$", stderr, re.M)
    if not m:
        return "unknown"
    head = m.group(1)
    # first frames after the panic line
    idx = stderr.find(head)
    frames = re.findall(r"^(\S+)\(.*\)\n\t(\S+):(\d+)", stderr[idx:], re.M)
    for fn, path, _ in frames:
        if fn.startswith("panic") or fn.startswith("runtime.") or "runtime/" in path or fn.startswith("sync.") or fn.startswith("internal/"):
            continue
        if "internal/verifsim" in fn or "/verif/sim/" in path or "/verif/glue/" in path:
            return "harness-panic"
        if "taskctl" in fn:
            return "taskctl-panic"
        # third-party frame (e.g. spinner, mvdan/sh): keep looking for who called it
    return "taskctl-panic" if "github.com/taskctl/taskctl" in stderr[idx:] else "unknown"


def classify_hang(stacks):
    """What a real-time hang (watchdog) is. 'taskctl-deadlock:<what>' only for lock cycles that are
    entirely explained by the stacks; everything else stays harness trouble."""
    gs = stacks.split("\n\n")
    def has(g, *frames):
        return all(f in g for f in frames)
    # cockpit: remove() holds the cockpit lock and waits for the spinner's lock inside Restart/Stop,
    # while the spinner's goroutine holds its lock and waits for the cockpit lock in PreUpdate
    a = [g for g in gs if has(g, "output.(*baseCockpit).remove", "spinner.(*Spinner).Stop") and ("Mutex" in g.split("\n")[0] or "semacquire" in g.split("\n")[0])]
    b = [g for g in gs if has(g, "spinner.(*Spinner).Start.func1", "output.(*baseCockpit).start.func1") and ("Mutex).Lock" in g)]
    if a and b:
        return "taskctl-deadlock:cockpit-lock-order"
    # a goroutine of taskctl's own code blocked on a channel that was not created inside the simulated
    # world (a package-level semaphore / queue): the bubble cannot go on while it waits for a goroutine
    # the simulator holds. Recognised only when taskctl's function is the innermost non-runtime frame.
    for g in gs:
        head = g.split("\n", 1)[0]
        if not re.match(r"goroutine \d+ \[(chan send|chan receive|select)(, \d+ minutes)?, synctest bubble \d+\]", head):
            continue
        for line in g.split("\n")[1:]:
            if line.startswith("\t") or line.startswith("runtime.") or line.startswith("created by"):
                continue
            m = re.match(r"(github\.com/taskctl/taskctl/(pkg|internal)/[^\s(]+(\([^)]*\))?[^\s(]*)\(", line)
            if m and "verifsim" not in line and "verifvsync" not in line:
                return "taskctl-blocked:" + m.group(1)
            break
    if "briandowns/spinner" in stacks and re.search(r"sync\.\(\*(RW)?Mutex\)\.(R?Lock)[^\n]*\n[^\n]*\n[^\n]*spinner\.\(\*Spinner\)", stacks):
        return "spinner-hazard"
    return "unknown"


class Batch:
    """One (engine, profile) batch of runs spread over worker processes."""

    def __init__(self, prop, part, tier, base, budget_s, nworkers):
        self.prop, self.part, self.tier, self.base = prop, part, tier, base
        self.budget_s, self.nworkers = budget_s, nworkers
        self.results = []
        self.crashes = []
        self.harness_errors = []
        self.spinner_hangs = 0
        self.deadlocks = []
        self.lock = threading.Lock()

    def job(self, i, start=0, count=0, budget=None):
        return {"engine": self.part["engine"], "prop": self.prop, "profile": self.part["profile"], "tier": self.tier,
                "base": self.base, "worker": i, "workers": self.nworkers, "start": start, "count": count,
                "budget_s": self.budget_s if budget is None else budget, "samples": 2,
                "opts": self.part.get("opts", []), "watchdog_s": 20 if self.tier == "quick" else 60}

    def _worker_loop(self, i):
        deadline = time.time() + self.budget_s
        start = 0
        restarts = 0
        while True:
            remaining = deadline - time.time()
            if remaining <= 0.2 and start > 0:
                return
            job = self.job(i, start=start, count=self.part.get("count", 0) and max(0, self.part["count"] // self.nworkers + 1), budget=max(remaining, 0.5))
            recs, rc, err = run_worker(job, timeout=remaining + 120)
            last_begin = None
            n_end = 0
            done = False
            for r in recs:
                t = r.get("type")
                if t == "begin":
                    last_begin = r
                elif t == "end":
                    n_end += 1
                    last_begin = None
                    with self.lock:
                        self.results.append(r)
                elif t == "done":
                    done = True
                elif t == "watchdog" and classify_hang(r.get("stacks", "")).startswith(("taskctl-deadlock", "taskctl-blocked")):
                    with self.lock:
                        self.deadlocks.append({"kind": classify_hang(r["stacks"]), "index": r.get("index"), "seed": r.get("seed"), "stacks": r["stacks"]})
                elif t == "watchdog" and classify_hang(r.get("stacks", "")) == "spinner-hazard":
                    # third-party hazard (DESIGN 9): the spinner's goroutine returned holding its lock;
                    # not a verdict about taskctl and not a fault of the harness - counted, run skipped
                    with self.lock:
                        self.spinner_hangs += 1
                elif t in ("harness_error", "watchdog"):
                    with self.lock:
                        self.harness_errors.append(r)
            if done:
                return
            # the worker died: attribute to the seed in progress
            kind = classify_crash(err)
            if rc == 3 and any(r.get("type") == "watchdog" and classify_hang(r.get("stacks", "")) != "unknown" for r in recs):
                kind = "classified-hang"
            with self.lock:
                m = re.search(r"^(panic: .*|fatal error: .*)$", err, re.M)
                head = err[m.start():m.start() + 3500] if m else err[:2000]
                self.crashes.append({"kind": kind, "begin": last_begin, "rc": rc, "stderr": head + "\n...\n" + err[-1500:], "panic_line": m.group(1) if m else "?"})
            restarts += 1
            if last_begin is None or restarts > 20:
                return
            # continue after the crashing index (same stride)
            start = last_begin["index"] - i + self.nworkers
            if self.part.get("count"):
                return

    def run(self):
        ths = [threading.Thread(target=self._worker_loop, args=(i,)) for i in range(self.nworkers)]
        for t in ths:
            t.start()
        for t in ths:
            t.join()


def real_binary_smoke(prop, scratch):
    """Anchors the one stub boundary of the CLI engine (main(): error -> exit status 1) with the real
    binary: builtin-only commands, no simulated parts. Returns (ok, details)."""
    repo = os.environ.get("VERIF_REPO", "/repo")
    binp = os.path.join(BUILD, "taskctl-real")
    env = dict(os.environ, GOFLAGS="-mod=mod", GOPROXY="off", GOSUMDB="off")
    p = subprocess.run(["go", "build", "-o", binp, "./cmd/taskctl"], cwd=repo, env=env, stdout=subprocess.PIPE, stderr=subprocess.STDOUT, text=True)
    if p.returncode != 0:
        return None, {"error": "build of the real binary failed", "output": p.stdout[-800:]}
    d = os.path.join(scratch, "smoke")
    os.makedirs(d, exist_ok=True)
    cfg = os.path.join(d, "tasks.yaml")
    open(cfg, "w").write("tasks:\n  ok1:\n    command: echo ran-ok1\n  bad:\n    command:\n      - echo ran-bad\n      - exit 3\n  ok2:\n    command: echo ran-ok2\n"
                         "pipelines:\n  pbad:\n    - task: ok1\n    - task: bad\n      depends_on: [ok1]\n")
    cases = [(["ok1"], 0, ["ran-ok1"], []), (["bad"], 1, ["ran-bad"], []), (["ok1", "bad", "ok2"], 1, ["ran-ok1", "ran-bad"], ["ran-ok2"]),
             (["ok1", "ok2"], 0, ["ran-ok1", "ran-ok2"], []), (["pbad", "ok2"], 1, ["ran-bad"], ["ran-ok2"]), (["run", "ok2", "--", "bad"], 0, ["ran-ok2"], ["ran-bad"])]
    out = []
    ok = True
    for args, want_rc, must, must_not in cases:
        try:
            q = subprocess.run([binp, "-c", cfg, "--output", "raw"] + args, cwd=d, stdout=subprocess.PIPE, stderr=subprocess.PIPE, text=True, timeout=30, stdin=subprocess.DEVNULL)
            rc, so = q.returncode, q.stdout
        except subprocess.TimeoutExpired:
            rc, so = -9, ""
        good = rc == want_rc and all(m in so for m in must) and not any(m in so for m in must_not)
        out.append({"argv": args, "exit": rc, "want_exit": want_rc, "ok": good})
        ok = ok and good
    return ok, {"cases": out}


def real_binary_signal(scratch):
    """C12 at the one boundary the simulator stubs (main()'s signal handler): the real binary runs
    `sleep`, SIGTERM / SIGINT is sent to the taskctl process only (as `kill`, a service manager or a
    CI time limit do), and the command must be gone shortly after. Returns (ok, details)."""
    import signal as _sig
    repo = os.environ.get("VERIF_REPO", "/repo")
    binp = os.path.join(BUILD, "taskctl-real")
    env = dict(os.environ, GOFLAGS="-mod=mod", GOPROXY="off", GOSUMDB="off")
    p = subprocess.run(["go", "build", "-o", binp, "./cmd/taskctl"], cwd=repo, env=env, stdout=subprocess.PIPE, stderr=subprocess.STDOUT, text=True)
    if p.returncode != 0:
        return None, {"error": "build of the real binary failed", "output": p.stdout[-800:]}
    d = os.path.join(scratch, "signal")
    os.makedirs(d, exist_ok=True)
    out, ok = [], True
    for signame in ("SIGTERM", "SIGINT"):
        dur = "3%d.%d" % (7 if signame == "SIGTERM" else 9, os.getpid() % 100000)  # a recognisable argument
        cfg = os.path.join(d, "tasks.yaml")
        open(cfg, "w").write("tasks:\n  slow:\n    command:\n      - sleep %s\n" % dur)
        def sleepers():
            ps = subprocess.run(["ps", "-eo", "pid,args"], stdout=subprocess.PIPE, text=True).stdout
            return [int(l.split()[0]) for l in ps.splitlines() if l.strip().endswith("sleep " + dur)]
        q = subprocess.Popen([binp, "-c", cfg, "--output", "raw", "slow"], cwd=d, stdout=subprocess.DEVNULL, stderr=subprocess.DEVNULL, stdin=subprocess.DEVNULL, start_new_session=True)
        t0 = time.time()
        while not sleepers() and time.time() - t0 < 10 and q.poll() is None:
            time.sleep(0.05)
        if not sleepers():
            q.kill()
            return None, {"error": "the command did not start within 10 s", "signal": signame}
        q.send_signal(getattr(_sig, signame))
        try:
            rc = q.wait(timeout=20)
        except subprocess.TimeoutExpired:
            q.kill()
            rc = None
        t1 = time.time()
        while sleepers() and time.time() - t1 < 3.5:   # the executor's own kill grace is 2 s
            time.sleep(0.1)
        alive = sleepers()
        out.append({"signal": signame, "taskctl_exit": rc, "command_still_running_3s_after_taskctl_exited": bool(alive)})
        for pid in alive:
            try:
                os.kill(pid, _sig.SIGKILL)
            except OSError:
                pass
        ok = ok and not alive and rc is not None
    return ok, {"cases": out}


def real_binary_timeout(scratch):
    """C13 at the seam the simulator stubs (mvdan/sh's DefaultExecHandler: interrupt, then kill after a
    grace period): the real binary runs an external command that ignores the interrupt under a 300 ms
    task timeout; 'terminated shortly afterwards' = the run is over within the 2 s grace + margin, it
    fails, and the next command never starts. (One process, no children of its own: a grandchild that
    survives and keeps the output pipe open delays the return of the run - os/exec waits for the pipe -
    which the statement does not speak about.) Returns (ok, details)."""
    repo = os.environ.get("VERIF_REPO", "/repo")
    binp = os.path.join(BUILD, "taskctl-real")
    env = dict(os.environ, GOFLAGS="-mod=mod", GOPROXY="off", GOSUMDB="off")
    p = subprocess.run(["go", "build", "-o", binp, "./cmd/taskctl"], cwd=repo, env=env, stdout=subprocess.PIPE, stderr=subprocess.STDOUT, text=True)
    if p.returncode != 0:
        return None, {"error": "build of the real binary failed", "output": p.stdout[-800:]}
    d = os.path.join(scratch, "timeout")
    os.makedirs(d, exist_ok=True)
    cfg = os.path.join(d, "tasks.yaml")
    open(cfg, "w").write("tasks:\n  stubborn:\n    timeout: 300ms\n    command:\n      - sh -c 'trap \"\" INT; exec sleep 17.3'\n      - echo ran-second-command\n")
    t0 = time.time()
    try:
        q = subprocess.run([binp, "-c", cfg, "--output", "raw", "stubborn"], cwd=d, stdout=subprocess.PIPE, stderr=subprocess.PIPE, text=True, timeout=40, stdin=subprocess.DEVNULL)
        rc, so = q.returncode, q.stdout
    except subprocess.TimeoutExpired:
        rc, so = None, ""
    took = time.time() - t0
    ps = subprocess.run(["ps", "-eo", "pid,args"], stdout=subprocess.PIPE, text=True).stdout
    for l in ps.splitlines():
        if l.strip().endswith("sleep 17.3"):
            try:
                os.kill(int(l.split()[0]), 9)
            except OSError:
                pass
    case = {"timeout_ms": 300, "kill_grace_expected_s": 2, "run_took_s": round(took, 2), "exit": rc, "second_command_ran": "ran-second-command" in so}
    ok = rc not in (0, None) and took <= 6.0 and not case["second_command_ran"]
    return ok, {"cases": [case]}


def real_binary_watch(scratch):
    """C20 at the boundary the WATCH engine does not enter (the `watch` command line, real inotify): the
    real binary runs `taskctl watch wa wb` (two watchers, one directory each); a file is written in
    each directory and each watcher's task must run for its own file. Returns (ok, details)."""
    import signal as _sig
    repo = os.environ.get("VERIF_REPO", "/repo")
    binp = os.path.join(BUILD, "taskctl-real")
    env = dict(os.environ, GOFLAGS="-mod=mod", GOPROXY="off", GOSUMDB="off")
    p = subprocess.run(["go", "build", "-o", binp, "./cmd/taskctl"], cwd=repo, env=env, stdout=subprocess.PIPE, stderr=subprocess.STDOUT, text=True)
    if p.returncode != 0:
        return None, {"error": "build of the real binary failed", "output": p.stdout[-800:]}
    d = os.path.join(scratch, "watch")
    subprocess.run(["rm", "-rf", d])
    for sub in ("da", "db", "dc"):
        os.makedirs(os.path.join(d, sub))
        open(os.path.join(d, sub, "seed.txt"), "w").write("x")
    cfg = os.path.join(d, "tasks.yaml")
    open(cfg, "w").write(
        "tasks:\n  ta:\n    command: echo \"ta $EventName $EventPath\" >> %s/log-a\n  tb:\n    command: echo \"tb $EventName $EventPath\" >> %s/log-b\n"
        "  tc:\n    command: echo \"tc $EventName $EventPath\" >> %s/log-c\n"
        "watchers:\n  wa:\n    watch: [\"%s/da/*.txt\"]\n    events: [write]\n    task: ta\n  wb:\n    watch: [\"%s/db/*.txt\"]\n    events: [write]\n    task: tb\n"
        "  wc:\n    watch: [\"%s/dc/*.txt\"]\n    task: tc\n" % (d, d, d, d, d, d))
    q = subprocess.Popen([binp, "-c", cfg, "watch", "wa", "wb", "wc"], cwd=d, stdout=subprocess.DEVNULL, stderr=subprocess.DEVNULL, stdin=subprocess.DEVNULL, start_new_session=True)
    time.sleep(2.5)   # registration + the start-up runs
    def log(n):
        try:
            return open(os.path.join(d, "log-" + n)).read()
        except OSError:
            return ""
    if q.poll() is not None:
        return None, {"error": "taskctl watch exited by itself", "exit": q.returncode}
    for sub in ("da", "db"):
        with open(os.path.join(d, sub, "seed.txt"), "a") as f:
            f.write("more\n")
    os.chmod(os.path.join(d, "dc", "seed.txt"), 0o600)   # wc lists no events: all types, chmod included
    t0 = time.time()
    want_a, want_b = "write " + os.path.join(d, "da", "seed.txt"), "write " + os.path.join(d, "db", "seed.txt")
    want_c = "chmod " + os.path.join(d, "dc", "seed.txt")
    while time.time() - t0 < 12 and not (want_a in log("a") and want_b in log("b") and want_c in log("c")):
        time.sleep(0.2)
    case = {"watchers": ["wa", "wb", "wc (no events list)"], "wa_served_its_write": want_a in log("a"), "wb_served_its_write": want_b in log("b"),
            "wc_served_a_chmod": want_c in log("c"), "waited_s": round(time.time() - t0, 1)}
    try:
        q.send_signal(_sig.SIGINT)
        q.wait(timeout=10)
    except Exception:
        q.kill()
    ok = case["wa_served_its_write"] and case["wb_served_its_write"] and case["wc_served_a_chmod"]
    return ok, {"cases": [case]}


def load_known():
    p = os.path.join(VERIF, "known_findings.json")
    if not os.path.exists(p):
        return []
    return json.load(open(p)).get("findings", [])


def known_match(prop, viol, known):
    for k in known:
        if k.get("status") != "open" or k.get("property") != prop:
            continue
        sig = k.get("signature", {})
        if sig.get("rule") and sig["rule"] != viol.get("rule"):
            continue
        if sig.get("msg_regex") and not re.search(sig["msg_regex"], viol.get("msg", "")):
            continue
        return k
    return None


def replay_once(path, prop, gomaxprocs=1, full=False):
    job = {"replay": path, "prop": prop, "full": full, "watchdog_s": 60}
    recs, rc, err = run_worker(job, timeout=180, gomaxprocs=gomaxprocs)
    end = [r for r in recs if r.get("type") == "end"]
    if end:
        return end[-1], rc, err
    return None, rc, err


def outcome_of(end, rc, err, prop, want=None):
    """Reduces a child run to (rule, hash) for the target property; crash => ('crash', kind).
    A run may break several rules: if `want` is among them it is the one reported."""
    if end is None:
        kind = classify_crash(err)
        if kind == "taskctl-panic":
            return ("crash", "")
        return (None, "died:" + kind)
    if end.get("panic"):
        return (None, "harness-panic")
    rules = [v["rule"] for v in end.get("viol") or [] if v["prop"] == prop]
    if want is not None and want in rules:
        return (want, end.get("hash", ""))
    if rules:
        return (rules[0], end.get("hash", ""))
    return (None, end.get("hash", ""))


def write_replay(path, rf):
    os.makedirs(os.path.dirname(path), exist_ok=True)
    with open(path, "w") as f:
        json.dump(rf, f, indent=1)


def minimise(rf, prop, rule, scratch, budget_s=60, max_tries=400):
    """Delta debugging over the choice list, keeping (property, rule)."""
    best = list(rf["choices"])
    tries = [0]
    t_end = time.time() + budget_s

    def fails(cand):
        if tries[0] >= max_tries or time.time() > t_end:
            return False
        tries[0] += 1
        tmp = dict(rf)
        tmp["choices"] = cand
        p = os.path.join(scratch, "cand.json")
        write_replay(p, tmp)
        end, rc, err = replay_once(p, prop)
        r, _ = outcome_of(end, rc, err, prop, rule)
        return r == rule

    # 1. truncate the tail (missing values replay as 0)
    lo, hi = 0, len(best)
    while lo < hi:
        mid = (lo + hi) // 2
        if fails(best[:mid]):
            hi = mid
        else:
            lo = mid + 1
    if hi < len(best) and fails(best[:hi]):
        best = best[:hi]
    # 2. remove chunks, 3. zero values
    n = 2
    while len(best) >= 2 and tries[0] < max_tries and time.time() < t_end:
        chunk = max(1, len(best) // n)
        removed = False
        i = 0
        while i < len(best):
            cand = best[:i] + best[i + chunk:]
            if len(cand) < len(best) and fails(cand):
                best = cand
                removed = True
            else:
                i += chunk
        if not removed:
            if chunk == 1:
                break
            n = min(len(best), n * 2)
    for i in range(len(best)):
        if best[i] != 0:
            cand = best[:i] + [0] + best[i + 1:]
            if fails(cand):
                best = cand
    while best and best[-1] == 0:
        best = best[:-1]
    return best, tries[0]


def trace_crash(batch, begin, scratch):
    """Re-runs a crashing index with the choice trace streamed to a file, to obtain its choice list."""
    tf = os.path.join(scratch, "trace.txt")
    if os.path.exists(tf):
        os.remove(tf)
    job = batch.job(0, count=1)
    job["indices"] = [begin["index"]]
    job["budget_s"] = 0
    recs, rc, err = run_worker(job, timeout=180, trace_file=tf)
    vals = []
    if os.path.exists(tf):
        for line in open(tf):
            line = line.strip()
            if line:
                vals.append(int(line))
    return vals, rc, err


def main():
    if len(sys.argv) >= 3 and sys.argv[1] == "--replay":
        build()
        rf = json.load(open(sys.argv[2]))
        if rf.get("pair"):
            job = {"engine": rf["engine"], "prop": rf["property"], "profile": rf["profile"], "tier": rf["tier"], "base": rf["base"], "worker": 0, "workers": 1,
                   "indices": rf["pair"], "budget_s": 0, "opts": rf.get("opts", []), "watchdog_s": 60}
            recs, rc, err = run_worker(job, timeout=300)
            outs = [x.get("outcome") for x in recs if x.get("type") == "end"]
            for i, o in zip(rf["pair"], outs):
                print("run %d: %s" % (i, o))
            if len(outs) == 2 and outs[0] != outs[1]:
                print("VIOLATION property=%s replay=%s" % (rf["property"], sys.argv[2]))
                sys.exit(1)
            sys.exit(0)
        if rf.get("expect") == "hang":
            recs, rc2, err2 = run_worker({"replay": sys.argv[2], "prop": rf.get("property", ""), "watchdog_s": 10}, timeout=60)
            again = [classify_hang(r.get("stacks", "")) for r in recs if r.get("type") == "watchdog"]
            print("hang classification on replay:", again)
            if again and again[0] == rf.get("hang_kind"):
                print("VIOLATION property=%s replay=%s" % (rf["property"], sys.argv[2]))
                sys.exit(1)
            sys.exit(0)
        end, rc, err = replay_once(sys.argv[2], rf.get("property", ""), full=True)
        if end is None:
            print(err[-4000:])
            print("worker died:", classify_crash(err))
            r = outcome_of(end, rc, err, rf.get("property", ""))
            sys.exit(1 if r[0] == "crash" else 2)
        for l in end.get("log") or []:
            print(l)
        print(json.dumps({k: end.get(k) for k in ("viol", "hash", "sample", "skipped", "panic")}, indent=1))
        hit = [v for v in end.get("viol") or [] if v["prop"] == rf.get("property")]
        if hit:
            print("VIOLATION property=%s replay=%s" % (rf["property"], sys.argv[2]))
            sys.exit(1)
        sys.exit(0)

    prop, tier = sys.argv[1], sys.argv[2]
    spec = PROPS[prop]
    sweep_scratch()
    t_start = time.time()
    base = int(os.environ.get("VERIF_SEED", "20260927")) & 0xFFFFFFFFFFFF
    print("VERIF_SEED=%d property=%s tier=%s" % (base, prop, tier), flush=True)
    build_s = build()
    budget = float(os.environ.get("VERIF_BUDGET_S", spec.get("budget", {}).get(tier, 30 if tier == "quick" else 600)))
    parts = [p for p in spec["parts"] if tier in p.get("tiers", ("quick", "thorough"))]
    total_w = float(sum(p.get("weight", 1) for p in parts))
    known = load_known()
    scratch = tempfile.mkdtemp(prefix="vcheck-", dir="/var/tmp")
    all_results, all_crashes, harness_errors, all_deadlocks = [], [], [], []
    part_stats = []
    try:
        for part in parts:
            b = Batch(prop, part, tier, base, budget * part.get("weight", 1) / total_w, NWORKERS)
            b.run()
            all_results += [(part, r) for r in b.results]
            all_crashes += [(b, c) for c in b.crashes]
            all_deadlocks += [(b, d) for d in b.deadlocks]
            harness_errors += b.harness_errors
            part_stats.append({"engine": part["engine"], "profile": part["profile"], "runs": len(b.results), "third_party_spinner_hangs_skipped": b.spinner_hangs})

        # ---- classify ----
        violations = []  # (part, result, violation)
        others = {}
        panics = []
        for part, r in all_results:
            if r.get("panic") or r.get("harness_err"):
                panics.append(r)
            for v in r.get("viol") or []:
                if v["prop"] == prop:
                    violations.append((part, r, v))
                else:
                    others[v["prop"] + ":" + v["rule"]] = others.get(v["prop"] + ":" + v["rule"], 0) + 1

        # cross-schedule outcome agreement (C02: the outcome is a function of the world only)
        if spec.get("cross_outcome"):
            by_world = {}
            for part, r in all_results:
                if r.get("outcome") and not r.get("skipped"):
                    by_world.setdefault((part["profile"], r["world"]), []).append(r)
            for key, rs in by_world.items():
                outs = {}
                for r in rs:
                    outs.setdefault(r["outcome"], r)
                if len(outs) > 1 and not any(r.get("counters", {}).get("worlds_cancelled") for r in rs):
                    rr = sorted(outs.values(), key=lambda r: r["index"])
                    v = {"prop": prop, "rule": "outcome-depends-on-schedule", "seq": 0, "pair": [rr[0]["index"], rr[-1]["index"]],
                         "msg": "world %s: different recorded outcomes for the same world (runs %d and %d): %s" % (key[1], rr[0]["index"], rr[-1]["index"], " | ".join(sorted(outs)))}
                    part = [p for p in parts if p["profile"] == key[0]][0]
                    violations.append((part, rr[-1], v))

        exit_code = 0
        reported = []
        known_hits = {}
        crash_viol = []
        for b, c in all_crashes:
            if c["kind"] == "taskctl-panic" and prop in CRASH_PROPS and c["begin"]:
                crash_viol.append((b, c))
            elif c["kind"] == "taskctl-panic":
                harness_errors.append({"type": "crash-other-property", "note": "taskctl panicked (see C03/C12/C19 checks); this property's statement is silent about crashes", "panic": c.get("panic_line"), "stderr": c["stderr"][:1800], "begin": c["begin"]})
            elif c["kind"] == "classified-hang":
                pass  # counted in spinner_hangs / deadlocks
            else:
                harness_errors.append({"type": "worker-died", "kind": c["kind"], "stderr": c["stderr"][-3000:], "begin": c["begin"]})

        # ---- report violations: group by rule, minimise the smallest example of each rule ----
        by_rule = {}
        for part, r, v in violations:
            by_rule.setdefault(v["rule"], []).append((part, r, v))
        for rule, items in sorted(by_rule.items()):
            unknown = [(p, r, v) for (p, r, v) in items if not known_match(prop, v, known)]
            for (p, r, v) in items:
                k = known_match(prop, v, known)
                if k:
                    known_hits[k["id"]] = (k, known_hits.get(k["id"], (k, 0))[1] + 1)
            if not unknown:
                continue
            unknown.sort(key=lambda x: (x[1].get("nchoices", 0), x[1]["index"]))
            part, r, v = unknown[0]
            if v.get("pair"):
                # a violation that is a disagreement between two runs: the replay is the pair
                job = Batch(prop, part, tier, base, 0, 1).job(0, count=2)
                job["indices"], job["budget_s"] = v["pair"], 0
                outs = []
                for attempt in range(2):
                    recs, rc, err = run_worker(job, timeout=300)
                    outs.append(tuple(x.get("outcome") for x in recs if x.get("type") == "end"))
                if len(outs[0]) != 2 or outs[0] != outs[1] or outs[0][0] == outs[0][1]:
                    harness_errors.append({"type": "non-reproducible", "rule": rule, "pair": v["pair"], "got": outs})
                    continue
                path = os.path.join(OUT, "replays", prop, "%s-%d-%d.json" % (rule, v["pair"][0], v["pair"][1]))
                write_replay(path, {"engine": part["engine"], "property": prop, "profile": part["profile"], "tier": tier, "base": base,
                                    "pair": v["pair"], "outcomes": list(outs[0]), "violation": v, "opts": part.get("opts", [])})
                print("violation: rule=%s %s" % (rule, v["msg"]), flush=True)
                print("VIOLATION property=%s replay=%s" % (prop, path), flush=True)
                reported.append({"rule": rule, "replay": path, "msg": v["msg"], "count": len(unknown)})
                exit_code = 1
                continue
            rf = {"engine": part["engine"], "property": prop, "profile": part["profile"], "tier": tier, "index": r["index"],
                  "seed": r["seed"], "choices": r.get("choices") or [], "violation": v, "log_hash": r.get("hash", ""), "opts": part.get("opts", [])}
            path = os.path.join(OUT, "replays", prop, "%s-%d.json" % (rule, r["index"]))
            write_replay(path, rf)
            # confirm in a fresh process, then minimise, then confirm twice more
            end, rc, err = replay_once(path, prop)
            got = outcome_of(end, rc, err, prop, rule)
            if got[0] != rule:
                harness_errors.append({"type": "non-reproducible", "rule": rule, "index": r["index"], "got": got})
                continue
            small, tries = minimise(rf, prop, rule, scratch, budget_s=45 if tier == "quick" else 180)
            rf2 = dict(rf)
            rf2["choices"] = small
            write_replay(path, rf2)
            e1 = outcome_of(*replay_once(path, prop), prop, rule)
            e2 = outcome_of(*replay_once(path, prop), prop, rule)
            if e1[0] != rule or e2[0] != rule or e1[1] != e2[1]:
                # fall back to the unminimised file if the minimised one is unstable
                write_replay(path, rf)
                e1 = outcome_of(*replay_once(path, prop), prop, rule)
                e2 = outcome_of(*replay_once(path, prop), prop, rule)
                if e1[0] != rule or e2[0] != rule:
                    harness_errors.append({"type": "non-reproducible", "rule": rule, "index": r["index"], "got": [e1, e2]})
                    continue
            endf, _, _ = replay_once(path, prop, full=True)
            if endf:
                rf3 = json.load(open(path))
                rf3["log_hash"] = endf.get("hash", "")
                rf3["violation"] = [x for x in endf.get("viol") if x["prop"] == prop and x["rule"] == rule][0]
                rf3["labels"] = endf.get("labels")
                rf3["event_log"] = endf.get("log")
                rf3["world"] = endf.get("sample")
                rf3["minimised_from"] = len(rf["choices"])
                rf3["minimiser_tries"] = tries
                write_replay(path, rf3)
                v = rf3["violation"]
            print("violation: rule=%s %s" % (rule, v["msg"]), flush=True)
            print("VIOLATION property=%s replay=%s" % (prop, path), flush=True)
            reported.append({"rule": rule, "replay": path, "msg": v["msg"], "count": len(unknown)})
            exit_code = 1

        # C04: a launched stage blocked on a process-global channel while the others are in flight
        blocked = [(b, d) for (b, d) in all_deadlocks if d["kind"].startswith("taskctl-blocked")]
        all_deadlocks = [(b, d) for (b, d) in all_deadlocks if not d["kind"].startswith("taskctl-blocked")]
        if blocked and prop == "C04":
            b, d = sorted(blocked, key=lambda x: x[1]["index"])[0]
            v = {"prop": prop, "rule": "blocked-on-global-channel", "msg": "a launched stage is blocked in %s on a channel shared by the whole process while the other stages are in flight: it does not start before one of them finishes (%d run(s))" % (d["kind"].split(":", 1)[1], len(blocked)), "seq": 0}
            k = known_match(prop, v, known)
            if k:
                known_hits[k["id"]] = (k, known_hits.get(k["id"], (k, 0))[1] + len(blocked))
            else:
                vals, rc_, err_ = trace_crash(b, {"index": d["index"], "seed": d["seed"]}, scratch)
                path = os.path.join(OUT, "replays", prop, "blocked-%d.json" % d["index"])
                write_replay(path, {"engine": b.part["engine"], "property": prop, "profile": b.part["profile"], "tier": tier, "index": d["index"], "seed": d["seed"],
                                    "choices": vals, "violation": v, "log_hash": "", "opts": b.part.get("opts", []), "expect": "hang", "hang_kind": d["kind"]})
                recs, rc2, err2 = run_worker({"replay": path, "prop": prop, "watchdog_s": 10}, timeout=60)
                again = [classify_hang(r.get("stacks", "")) for r in recs if r.get("type") == "watchdog"]
                if again and again[0] == d["kind"]:
                    print("violation: rule=%s %s" % (v["rule"], v["msg"]), flush=True)
                    print("VIOLATION property=%s replay=%s" % (prop, path), flush=True)
                    reported.append({"rule": v["rule"], "replay": path, "msg": v["msg"], "count": len(blocked)})
                    exit_code = 1
                else:
                    harness_errors.append({"type": "non-reproducible-block", "index": d["index"], "got": again})
        elif blocked:
            harness_errors.append({"type": "blocked-on-global-channel", "note": "a goroutine of taskctl waits on a process-global channel held by goroutines the simulator parks; not a verdict for this property", "kind": blocked[0][1]["kind"], "index": blocked[0][1]["index"]})

        # deadlocks of the system under test (real-time hang whose stacks show a complete lock cycle)
        if all_deadlocks and prop in CRASH_PROPS:
            b, d = sorted(all_deadlocks, key=lambda x: x[1]["index"])[0]
            v = {"prop": prop, "rule": "deadlock", "msg": "the process deadlocks (%s): %d run(s) hung in real time with a complete lock cycle in their stacks" % (d["kind"].split(":", 1)[1], len(all_deadlocks)), "seq": 0}
            k = known_match(prop, v, known)
            if k:
                known_hits[k["id"]] = (k, known_hits.get(k["id"], (k, 0))[1] + len(all_deadlocks))
            else:
                vals, rc_, err_ = trace_crash(b, {"index": d["index"], "seed": d["seed"]}, scratch)
                path = os.path.join(OUT, "replays", prop, "deadlock-%d.json" % d["index"])
                write_replay(path, {"engine": b.part["engine"], "property": prop, "profile": b.part["profile"], "tier": tier, "index": d["index"], "seed": d["seed"],
                                    "choices": vals, "violation": v, "log_hash": "", "opts": b.part.get("opts", []), "expect": "hang", "hang_kind": d["kind"],
                                    "stacks_excerpt": "\n\n".join(g for g in d["stacks"].split("\n\n") if "baseCockpit" in g)[:4000]})
                # replay: must hang again with the same classification
                job = {"replay": path, "prop": prop, "watchdog_s": 10}
                recs, rc2, err2 = run_worker(job, timeout=60)
                again = [classify_hang(r.get("stacks", "")) for r in recs if r.get("type") == "watchdog"]
                if again and again[0] == d["kind"]:
                    print("violation: rule=deadlock %s" % v["msg"], flush=True)
                    print("VIOLATION property=%s replay=%s" % (prop, path), flush=True)
                    reported.append({"rule": "deadlock", "replay": path, "msg": v["msg"], "count": len(all_deadlocks)})
                    exit_code = 1
                else:
                    harness_errors.append({"type": "non-reproducible-deadlock", "index": d["index"], "got": again})
        elif all_deadlocks:
            harness_errors.append({"type": "deadlock-other-property", "note": "taskctl deadlocked (see the C03/C12/C19 checks); this property's statement is silent about it", "kind": all_deadlocks[0][1]["kind"], "index": all_deadlocks[0][1]["index"]})

        for b, c in crash_viol[:1] if crash_viol else []:
            vals, rc, err = trace_crash(b, c["begin"], scratch)
            v = {"prop": prop, "rule": "crash", "msg": "taskctl panicked: " + c.get("panic_line", "?"), "seq": 0}
            k = known_match(prop, v, known)
            if k:
                known_hits[k["id"]] = (k, known_hits.get(k["id"], (k, 0))[1] + len(crash_viol))
                continue
            rf = {"engine": b.part["engine"], "property": prop, "profile": b.part["profile"], "tier": tier, "index": c["begin"]["index"],
                  "seed": c["begin"]["seed"], "choices": vals, "violation": v, "log_hash": "", "opts": b.part.get("opts", []),
                  "stderr_head": c["stderr"][:3000]}
            path = os.path.join(OUT, "replays", prop, "crash-%d.json" % c["begin"]["index"])
            write_replay(path, rf)
            got = outcome_of(*replay_once(path, prop), prop)
            if got[0] != "crash":
                harness_errors.append({"type": "non-reproducible-crash", "index": c["begin"]["index"], "got": got, "stderr": c["stderr"][-2000:]})
                continue
            small, tries = minimise(rf, prop, "crash", scratch, budget_s=45 if tier == "quick" else 180)
            rf["choices"] = small
            rf["minimiser_tries"] = tries
            write_replay(path, rf)
            if outcome_of(*replay_once(path, prop), prop)[0] != "crash":
                rf["choices"] = vals
                write_replay(path, rf)
            print("violation: rule=crash %s" % v["msg"], flush=True)
            print("VIOLATION property=%s replay=%s" % (prop, path), flush=True)
            reported.append({"rule": "crash", "replay": path, "msg": v["msg"], "count": len(crash_viol)})
            exit_code = 1

        smoke = None
        if spec.get("real_binary_smoke"):
            sok, smoke = real_binary_smoke(prop, scratch)
            if sok is None:
                harness_errors.append({"type": "smoke-build-failed", "detail": smoke})
            elif not sok:
                path = os.path.join(OUT, "replays", prop, "real-binary-smoke.json")
                write_replay(path, {"property": prop, "engine": "real-binary", "violation": {"prop": prop, "rule": "real-binary-exit-status", "msg": "the real taskctl binary does not exit 0 exactly when every target succeeded / runs a later target after a failed one"}, "cases": smoke["cases"]})
                print("violation: rule=real-binary-exit-status %s" % json.dumps([c for c in smoke["cases"] if not c["ok"]])[:600], flush=True)
                print("VIOLATION property=%s replay=%s" % (prop, path), flush=True)
                reported.append({"rule": "real-binary-exit-status", "replay": path, "msg": "real binary smoke failed", "count": 1})
                exit_code = 1

        signal_probe = None
        if spec.get("real_binary_signal"):
            sok, signal_probe = real_binary_signal(scratch)
            if sok is None:
                harness_errors.append({"type": "signal-probe-trouble", "detail": signal_probe})
            elif not sok:
                v = {"prop": prop, "rule": "signal-leaves-command-running", "msg": "real binary: after SIGTERM / SIGINT to the taskctl process it exits at once and the running command stays alive: %s" % json.dumps(signal_probe["cases"]), "seq": 0}
                k = known_match(prop, v, known)
                if k:
                    known_hits[k["id"]] = (k, known_hits.get(k["id"], (k, 0))[1] + 1)
                else:
                    path = os.path.join(OUT, "replays", prop, "real-binary-signal.json")
                    write_replay(path, {"property": prop, "engine": "real-binary", "violation": v, "cases": signal_probe["cases"],
                                        "how": "build ./cmd/taskctl, run a task `sleep N`, send the signal to the taskctl pid only, look for the sleep process 3.5 s after taskctl exited"})
                    print("violation: rule=%s %s" % (v["rule"], v["msg"][:600]), flush=True)
                    print("VIOLATION property=%s replay=%s" % (prop, path), flush=True)
                    reported.append({"rule": v["rule"], "replay": path, "msg": v["msg"], "count": 1})
                    exit_code = 1

        timeout_probe = None
        if spec.get("real_binary_timeout"):
            tok, timeout_probe = real_binary_timeout(scratch)
            if tok is None:
                harness_errors.append({"type": "timeout-probe-trouble", "detail": timeout_probe})
            elif not tok:
                v = {"prop": prop, "rule": "real-binary-timeout", "msg": "real binary: a command that ignores the interrupt, under a 300 ms task timeout: %s (want: the run fails, is over within the 2 s kill grace plus margin (<= 6 s), and the next command does not start)" % json.dumps(timeout_probe["cases"]), "seq": 0}
                k = known_match(prop, v, known)
                if k:
                    known_hits[k["id"]] = (k, known_hits.get(k["id"], (k, 0))[1] + 1)
                else:
                    path = os.path.join(OUT, "replays", prop, "real-binary-timeout.json")
                    write_replay(path, {"property": prop, "engine": "real-binary", "violation": v, "cases": timeout_probe["cases"],
                                        "how": "build ./cmd/taskctl; task with `timeout: 300ms` and commands [sh -c 'trap \"\" INT; exec sleep 17.3', echo ran-second-command]; run it, measure"})
                    print("violation: rule=%s %s" % (v["rule"], v["msg"][:600]), flush=True)
                    print("VIOLATION property=%s replay=%s" % (prop, path), flush=True)
                    reported.append({"rule": v["rule"], "replay": path, "msg": v["msg"], "count": 1})
                    exit_code = 1

        watch_probe = None
        if spec.get("real_binary_watch"):
            wok, watch_probe = real_binary_watch(scratch)
            if wok is None:
                harness_errors.append({"type": "watch-probe-trouble", "detail": watch_probe})
            elif not wok:
                v = {"prop": prop, "rule": "real-binary-watch", "msg": "real binary: `taskctl watch wa wb wc`, one write in the directories of wa and wb, a chmod in that of wc (which lists no events): %s (each watcher must run its task for its own file)" % json.dumps(watch_probe["cases"]), "seq": 0}
                k = known_match(prop, v, known)
                if k:
                    known_hits[k["id"]] = (k, known_hits.get(k["id"], (k, 0))[1] + 1)
                else:
                    path = os.path.join(OUT, "replays", prop, "real-binary-watch.json")
                    write_replay(path, {"property": prop, "engine": "real-binary", "violation": v, "cases": watch_probe["cases"],
                                        "how": "build ./cmd/taskctl; two watchers wa (da/*.txt) and wb (db/*.txt), events [write], tasks appending $EventName $EventPath to a log; `taskctl watch wa wb`, append to one file in each directory, wait up to 12 s"})
                    print("violation: rule=%s %s" % (v["rule"], v["msg"][:600]), flush=True)
                    print("VIOLATION property=%s replay=%s" % (prop, path), flush=True)
                    reported.append({"rule": v["rule"], "replay": path, "msg": v["msg"], "count": 1})
                    exit_code = 1

        for kid, (k, n) in sorted(known_hits.items()):
            print("KNOWN-FINDING: property=%s %s (%d runs)" % (prop, k["text"], n), flush=True)

        # ---- evidence ----
        wall = time.time() - t_start
        runs = [r for _, r in all_results]
        nontrivial = set(r["hash"] for r in runs if r.get("nontrivial") and not r.get("skipped"))
        counters = {}
        for r in runs:
            for k, val in (r.get("counters") or {}).items():
                if k == "systematic_shape":
                    counters.setdefault("_shapes", set()).add(val)
                    continue
                counters[k] = counters.get(k, 0) + val
        if "_shapes" in counters:
            counters["systematic_dag_shapes_covered"] = len(counters.pop("_shapes"))
        samples = []
        for part, r in all_results:
            if r.get("sample") and r.get("nontrivial") and len(samples) < 4:
                samples.append({"engine": part["engine"], "profile": part["profile"], "index": r["index"], "seed": r["seed"],
                                "world": r["sample"], "steps": r["steps"], "choices": r["nchoices"], "log_hash": r["hash"]})
        # one full event log as an illustration
        if samples:
            s0 = samples[0]
            part0 = [p for p in parts if p["profile"] == s0["profile"]][0]
            job = Batch(prop, part0, tier, base, 0, 1).job(0, count=1)
            job["indices"], job["full"], job["budget_s"] = [s0["index"]], True, 0
            recs, rc, err = run_worker(job, timeout=120)
            for r in recs:
                if r.get("type") == "end":
                    s0["event_log"] = (r.get("log") or [])[:80]
                    s0["choice_trace"] = list(zip(r.get("labels") or [], r.get("choices") or []))[:80]
        if not samples:
            samples = [{"note": "no non-trivial run in this batch", "runs": len(runs)}]
        sim_s = sum(r.get("sim_ns", 0) for r in runs) / 1e9
        ev = {
            "property_id": prop, "tier": tier, "seed": base, "level": spec["level"],
            "coverage": {
                "evaluations": len(runs),
                "distinct_nontrivial": len(nontrivial),
                "rule": spec["rule"],
                "samples": samples,
                "runs_skipped": sum(1 for r in runs if r.get("skipped")),
                "runs_per_hour": int(len(runs) / max(wall - build_s, 0.001) * 3600),
                "simulated_seconds": round(sim_s, 3),
                "controller_steps": sum(r.get("steps", 0) for r in runs),
                "choices_drawn": sum(r.get("nchoices", 0) for r in runs),
                "fault_and_probe_counters": counters,
                "parts": part_stats,
                "other_property_observations": others,
                "real_vs_stub": REAL_VS_STUB,
                "real_binary_smoke": smoke,
                "real_binary_signal_probe": signal_probe,
                "real_binary_timeout_probe": timeout_probe,
                "real_binary_watch_probe": watch_probe,
                "workers": NWORKERS,
                "harness_errors": len(harness_errors),
                "worker_crashes": len(all_crashes),
                "violations_reported": reported,
                "known_findings_hit": {kid: n for kid, (k, n) in known_hits.items()},
            },
            "assumptions": spec["assumptions"],
            "wall_s": round(wall, 2),
            "violations": len(reported),
        }
        os.makedirs(os.path.join(OUT, "evidence"), exist_ok=True)
        with open(os.path.join(OUT, "evidence", prop + ".json"), "w") as f:
            json.dump(ev, f, indent=1)
        print("runs=%d distinct_nontrivial=%d sim_s=%.1f wall=%.1fs build=%.1fs crashes=%d harness_errors=%d" % (
            len(runs), len(nontrivial), sim_s, wall, build_s, len(all_crashes), len(harness_errors)), flush=True)
        if panics:
            log("harness panic in run:", json.dumps(panics[0])[:3000])
            if exit_code == 0:
                exit_code = 2
        if harness_errors and exit_code == 0:
            log("harness errors:", json.dumps(harness_errors[:3], indent=1)[:6000])
            exit_code = 2
        if len(runs) == 0 and exit_code == 0:
            log("no runs completed")
            exit_code = 2
        sys.exit(exit_code)
    finally:
        shutil.rmtree(scratch, ignore_errors=True)


if __name__ == "__main__":
    main()

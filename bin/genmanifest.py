#!/usr/bin/env python3
"""Writes /verif/MANIFEST.json from bin/vprops.py (single source of truth for the claimed checks)."""
import json, os, subprocess, sys
VERIF = os.path.dirname(os.path.dirname(os.path.abspath(__file__)))
sys.path.insert(0, os.path.join(VERIF, "bin"))
from vprops import PROPS, NOT_APPLICABLE, MANIFEST_TEXT
hooks = subprocess.run(["git", "-C", "/repo", "log", "--format=%H %s"], stdout=subprocess.PIPE, text=True).stdout.splitlines()
hook_commits = [l.split()[0] for l in hooks if l.split(" ", 1)[1].startswith("verif hooks")]
m = {
    "version": 1,
    "setup_cmd": "bin/setup.sh",
    "hooks": {
        "guard": "verif (Go build tag)",
        "enable": "bin/build.sh: go1.26.8 test -c -tags verif with /verif/sim and /verif/glue overlaid into the taskctl module (-overlay, -modfile copy of go.mod); binaries run with GODEBUG=asynctimerchan=0",
        "baseline_off_cmd": "cd /repo && GOFLAGS=-mod=mod GOPROXY=off GOSUMDB=off go test -vet=off -count=1 -timeout 25m ./...",
        "source_commits": hook_commits,
        "add_only": True,
    },
    "engines": [
        {"name": "sched", "path": "sim/eng_sched.go", "serves_properties": ["C01", "C02", "C03", "C04", "C12"], "kind_free_text": "real pkg/scheduler inside a testing/synctest bubble against a controlled Runner stub; seeded controller decides completion order, passes, Cancel instants"},
    ] + MANIFEST_TEXT.get("engines", []),
    "checks": [],
    "not_applicable": NOT_APPLICABLE,
    "notes": MANIFEST_TEXT["notes"],
}
for pid in sorted(PROPS):
    p = PROPS[pid]
    m["checks"].append({
        "property_id": pid,
        "quick_cmd": "python3 bin/vcheck.py %s quick" % pid,
        "thorough_cmd": "python3 bin/vcheck.py %s thorough" % pid,
        "evidence_file": "/verif/evidence/%s.json" % pid,
        "replay_cmd_template": "python3 bin/vcheck.py --replay {path}",
        "engine": "+".join(sorted(set(x["engine"] for x in p["parts"]))),
        "level_claimed": {"category": p["level"], "text": p["level_text"], "design_ref": p.get("design_ref", "DESIGN.md 5")},
        "level_note": p["level_note"],
        "technique": p.get("technique", "deterministic simulation with fault injection: seeded schedule/fault search over the real code in a synctest bubble, oracle = reference model + online invariants"),
    })
json.dump(m, open(os.path.join(VERIF, "MANIFEST.json"), "w"), indent=1)
print("wrote MANIFEST.json with", len(m["checks"]), "checks,", len(NOT_APPLICABLE), "not applicable")

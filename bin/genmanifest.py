#!/usr/bin/env python3
"""Writes /verif/MANIFEST.json from bin/vprops.py (single source of truth for the claimed checks)."""
import json, os, subprocess, sys
VERIF = os.path.dirname(os.path.dirname(os.path.abspath(__file__)))
sys.path.insert(0, os.path.join(VERIF, "bin"))
from vprops import PROPS, NOT_APPLICABLE, MANIFEST_TEXT
hooks = subprocess.run(["git", "-C", "/repo", "log", "--format=%H %s"], stdout=subprocess.PIPE, text=True).stdout.splitlines()
hook_commits = [l.split()[0] for l in hooks if l.split(" ", 1)[1].startswith("verif hooks")]
m = {
    "version": 1,
    "setup_cmd": "bin/setup.sh",
    "hooks": {
        "guard": "verif (Go build tag)",
        "enable": "bin/build.sh: go1.26.8 test -c -tags verif with /verif/sim and /verif/glue overlaid into the taskctl module (-overlay, -modfile copy of go.mod); binaries run with GODEBUG=asynctimerchan=0. In the same overlay step (simulated build only, /repo untouched) copies of taskctl's own source files are rewritten: sync.Mutex|RWMutex|Once -> channel-based sim/vsync types (durable blocking in the synctest bubble), and in pkg/scheduler `range g.Nodes()` -> `range verifNodes(g.Nodes())` plus a `verifYield(\"sched-visit\", stage)` at the top of those loops (seeded visiting order, mid-pass park points); every top-level function of pkg/* and internal/* gets a preemption point at its entry and (tools/stmtpoints, go/ast) before each of its statements - inactive unless the controller armed it for the goroutine it just released; `<-cancel` in cmd/taskctl becomes a wait point (when the CLI's cancel listeners act is a seeded choice); the build's go.mod copy replaces github.com/briandowns/spinner by a copy under $VERIF_BUILD/third_party whose lock is the channel-based one and whose exported functions are preemption points; `cleanupList.Range` in pkg/runner (teardown of the execution contexts at Finish) visits the contexts in a seeded order instead of the sync.Map's. Switches: VERIF_NO_VSYNC=1 (no rewrite at all), VERIF_NO_PREEMPT=1, VERIF_NO_STMT=1, VERIF_NO_SPINNER=1.",
        "baseline_off_cmd": "cd /repo && GOFLAGS=-mod=mod GOPROXY=off GOSUMDB=off go test -vet=off -count=1 -timeout 25m ./...",
        "source_commits": hook_commits,
        "add_only": True,
    },
    "engines": [
        {"name": "sched", "path": "sim/eng_sched.go", "serves_properties": ["C01", "C02", "C03", "C04", "C12"], "kind_free_text": "real pkg/scheduler inside a testing/synctest bubble against a controlled Runner stub; seeded controller decides completion order, pass visiting order, mid-pass completions, Cancel instants"},
        {"name": "integ / fault / cli", "path": "sim/eng_integ.go", "serves_properties": ["C01", "C02", "C03", "C04", "C06", "C07", "C08", "C11", "C12", "C13", "C14", "C19"], "kind_free_text": "real TaskRunner + executor + mvdan/sh interpreter + output decorators (+ real scheduler, config loader, in-process command line) over a simulated process layer (exit status, output chunks, durations, reaction to interrupts) on the fake clock; faults: non-zero exits, command-not-found, stalls, kill delays, timeouts, Cancel/abort at every step, reused write buffers"},
        {"name": "watch", "path": "sim/eng_watch.go", "serves_properties": ["C20"], "kind_free_text": "real watcher loop / handle / filters + real TaskRunner, injected fsnotify event histories, fake 1 s poll; reference glob matcher for the selected paths"},
    ] + MANIFEST_TEXT.get("engines", []),
    "checks": [],
    "not_applicable": NOT_APPLICABLE,
    "notes": MANIFEST_TEXT["notes"],
}
for pid in sorted(PROPS):
    p = PROPS[pid]
    m["checks"].append({
        "property_id": pid,
        "quick_cmd": "python3 bin/vcheck.py %s quick" % pid,
        "thorough_cmd": "python3 bin/vcheck.py %s thorough" % pid,
        "evidence_file": "/verif/evidence/%s.json" % pid,
        "replay_cmd_template": "python3 bin/vcheck.py --replay {path}",
        "engine": "+".join(sorted(set(x["engine"] for x in p["parts"]))),
        "level_claimed": {"category": p["level"], "text": p["level_text"], "design_ref": p.get("design_ref", "DESIGN.md 5")},
        "level_note": p["level_note"],
        "technique": p.get("technique", "deterministic simulation with fault injection: seeded schedule/fault search over the real code in a synctest bubble, oracle = reference model + online invariants"),
    })
json.dump(m, open(os.path.join(VERIF, "MANIFEST.json"), "w"), indent=1)
print("wrote MANIFEST.json with", len(m["checks"]), "checks,", len(NOT_APPLICABLE), "not applicable")

#!/usr/bin/env python3
"""Determinism self-test: the same indices are run in >=30 fresh worker processes spread over
GOMAXPROCS 1/4/16; canonical log hash, verdicts and number of drawn choices must be identical.

usage: selftest_determinism.py [profile-substring ...]   (env DET_N indices per profile, default 60; DET_PROCS per GOMAXPROCS, default 10)
Writes /verif/evidence/selftest_determinism.json; exit 1 on any divergence.
"""
import json, os, sys, time, concurrent.futures as cf
VERIF = os.path.dirname(os.path.dirname(os.path.abspath(__file__)))
sys.path.insert(0, os.path.join(VERIF, "bin"))
import vcheck
from vprops import PROPS

def profiles():
    seen, out = set(), []
    for pid, spec in sorted(PROPS.items()):
        for part in spec["parts"]:
            key = (part["engine"], part["profile"])
            if key not in seen:
                seen.add(key)
                out.append((pid, part))
    return out

def run(pid, part, indices, gmp, tier):
    job = {"engine": part["engine"], "prop": pid, "profile": part["profile"], "tier": tier, "base": 424242, "worker": 0, "workers": 1,
           "indices": indices, "budget_s": 0, "opts": part.get("opts", []), "watchdog_s": 120}
    recs, rc, err = vcheck.run_worker(job, timeout=900, gomaxprocs=gmp)
    out = {}
    for r in recs:
        if r.get("type") == "end":
            out[r["index"]] = (r.get("hash"), r.get("nchoices"), json.dumps(sorted((v["prop"], v["rule"]) for v in r.get("viol") or [])), r.get("skipped") or "")
    return out, rc, (err[:1500] + " ... " + err[-800:]) if len(err) > 2300 else err

def main():
    sel = sys.argv[1:]
    n = int(os.environ.get("DET_N", "60"))
    procs = int(os.environ.get("DET_PROCS", "10"))
    tier = os.environ.get("DET_TIER", "quick")
    vcheck.build()
    report, bad = [], 0
    t0 = time.time()
    for pid, part in profiles():
        name = part["engine"] + "/" + part["profile"]
        if sel and not any(x in name for x in sel):
            continue
        # a spread of indices: the systematic prefix and far ones
        indices = list(range(0, n // 2)) + [1000 + 37 * i for i in range(n - n // 2)]
        jobs = [(g, k) for g in (1, 4, 16) for k in range(procs)]
        with cf.ThreadPoolExecutor(max_workers=16) as ex:
            results = list(ex.map(lambda gk: run(pid, part, indices, gk[0], tier), jobs))
        ref = results[0][0]
        diverged = []
        for (g, k), (out, rc, err) in zip(jobs, results):
            if len(out) != len(indices):
                diverged.append({"gomaxprocs": g, "proc": k, "problem": "only %d of %d runs completed (rc %s) %s" % (len(out), len(indices), rc, err)})
                continue
            for i in indices:
                if out[i] != ref[i]:
                    diverged.append({"gomaxprocs": g, "proc": k, "index": i, "got": out[i], "ref": ref[i]})
        report.append({"profile": name, "indices": len(indices), "processes": len(jobs), "gomaxprocs": [1, 4, 16], "divergences": len(diverged), "examples": diverged[:5]})
        bad += len(diverged)
        print("%-14s indices=%d processes=%d divergences=%d" % (name, len(indices), len(jobs), len(diverged)), flush=True)
        for d in diverged[:3]:
            print("   ", json.dumps(d)[:600])
    os.makedirs(os.path.join(VERIF, "evidence"), exist_ok=True)
    json.dump({"when": time.strftime("%Y-%m-%d %H:%M:%S"), "wall_s": round(time.time() - t0, 1), "tier": tier, "profiles": report, "total_divergences": bad},
              open(os.path.join(VERIF, "evidence", "selftest_determinism.json"), "w"), indent=1)
    sys.exit(1 if bad else 0)

main()

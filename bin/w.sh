#!/bin/bash
# dev helper: run one worker job and summarise. usage: w.sh ENGINE PROFILE COUNT [tier] [start]
cd /verif
export GODEBUG=asynctimerchan=0 GOMAXPROCS=1
VSIM_JOB="{\"engine\":\"$1\",\"prop\":\"X\",\"profile\":\"$2\",\"tier\":\"${4:-quick}\",\"base\":${BASE:-1},\"worker\":0,\"workers\":1,\"start\":${5:-0},\"count\":$3}" ./build/sim.test -test.run '^TestVerifWorker$' -test.timeout 120s 2>&1 | python3 -c "
import sys,json,collections
n=0; rules=collections.Counter(); cnt=collections.Counter(); shown=0
for l in sys.stdin:
    if not l.startswith('{'): print(l.rstrip()[:300]); continue
    r=json.loads(l)
    if r.get('type')=='end':
        n+=1
        for k,v in (r.get('counters') or {}).items(): cnt[k]+=v
        for v in r.get('viol') or []: rules[v['prop']+':'+v['rule']]+=1
        if (r.get('viol') or r.get('panic') or r.get('harness_err')) and shown<int('${SHOW:-4}'):
            shown+=1
            print(json.dumps({k:r.get(k) for k in 'index viol panic harness_err sample skipped'.split()})[:2500])
    elif r.get('type') not in ('begin','done'): print(str(r)[:6000])
print('runs',n, dict(rules)); print(dict(cnt))
"

#!/usr/bin/env python3
"""Sensitivity self-test: applies each mutant (a string replacement in a scratch copy of /repo),
runs the listed checks against the scratch copy and reports which fired.

usage: mutants.py [name-substring ...]      (env MUT_BUDGET_S, default 8)
Scratch copies live under /var/tmp and are removed afterwards. /repo is never touched.
"""
import os, subprocess, sys, shutil, json, tempfile, re
VERIF = os.path.dirname(os.path.dirname(os.path.abspath(__file__)))
sys.path.insert(0, os.path.join(VERIF, "mutants"))
from mutant_list import MUTANTS  # noqa

def run(m, budget):
    d = tempfile.mkdtemp(prefix="mut-", dir="/var/tmp")
    try:
        repo = os.path.join(d, "repo")
        subprocess.run(["rsync", "-a", "--exclude", ".git", "/repo/", repo + "/"], check=True)
        for (f, old, new) in m["edits"]:
            p = os.path.join(repo, f)
            s = open(p).read()
            if s.count(old) != 1:
                return {"error": "anchor count %d in %s" % (s.count(old), f)}
            open(p, "w").write(s.replace(old, new))
        env = dict(os.environ, VERIF_REPO=repo, VERIF_BUILD=os.path.join(d, "build"), VERIF_OUT=os.path.join(d, "out"), VERIF_BUDGET_S=str(budget))
        out = {}
        for prop in m["expect"] + m.get("also", []):
            p = subprocess.run(["python3", os.path.join(VERIF, "bin", "vcheck.py"), prop, "quick"], env=env, stdout=subprocess.PIPE, stderr=subprocess.PIPE, text=True)
            rules = re.findall(r"violation: rule=(\S+)", p.stdout)
            out[prop] = {"exit": p.returncode, "rules": rules}
            if p.returncode == 2:
                out[prop]["stderr"] = p.stderr[-1500:]
        return out
    finally:
        shutil.rmtree(d, ignore_errors=True)

def main():
    budget = float(os.environ.get("MUT_BUDGET_S", "8"))
    sel = sys.argv[1:]
    ok = True
    for m in MUTANTS:
        if sel and not any(x in m["name"] for x in sel):
            continue
        r = run(m, budget)
        status = []
        if "error" in r:
            status.append("ERROR " + r["error"]); ok = False
        else:
            for prop in m["expect"]:
                good = r[prop]["exit"] == 1
                status.append("%s:%s%s" % (prop, "CAUGHT" if good else "MISSED(exit %d)" % r[prop]["exit"], r[prop]["rules"]))
                if not good:
                    ok = False
                    if r[prop].get("stderr"): status.append(r[prop]["stderr"])
            for prop in m.get("also", []):
                status.append("%s:exit%d%s" % (prop, r[prop]["exit"], r[prop]["rules"]))
        print("%-34s %s" % (m["name"], "  ".join(status)), flush=True)
    sys.exit(0 if ok else 1)

main()

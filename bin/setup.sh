#!/bin/bash
# Offline set-up: warms the go1.26.8 build cache and builds the worker binary once.
set -e
cd "$(dirname "$0")/.."
mkdir -p build evidence replays
bin/build.sh

#!/bin/bash
# Offline set-up: warms the go1.26.8 build cache and builds the worker binary once.
set -e
cd "$(dirname "$0")/.."
mkdir -p build evidence replays
bin/build.sh
# warm the default toolchain's cache for the real-binary smoke of C07
(cd "${VERIF_REPO:-/repo}" && GOFLAGS=-mod=mod GOPROXY=off GOSUMDB=off go build -o "$OLDPWD/build/taskctl-real" ./cmd/taskctl) || true

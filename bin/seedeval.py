#!/usr/bin/env python3
"""Evaluates one seeded change delivered by a sub-agent.

usage: seedeval.py <PROP> <n> <demo-src> <demo-dest-relpath> <go-test-args...> [--checks C01,C02] [--budget 12]

1. clean scratch copy of /repo + demo  -> the demo must PASS
2. patched scratch copy: builds, existing suite passes, the demo must FAIL
3. the listed checks (default: the property's own) run against the patched copy
Prints a JSON summary; copies patch/demo/meta into /verif/seeded/<PROP>-<n>/ when steps 1-2 hold.
Scratch copies live under /var/tmp and are removed.
"""
import json, os, shutil, subprocess, sys, tempfile, re
VERIF = os.path.dirname(os.path.dirname(os.path.abspath(__file__)))
ENV = dict(os.environ, GOFLAGS="-mod=mod", GOPROXY="off", GOSUMDB="off")

def sh(cmd, cwd, timeout=900, env=ENV):
    try:
        p = subprocess.run(cmd, cwd=cwd, shell=True, env=env, stdout=subprocess.PIPE, stderr=subprocess.STDOUT, text=True, timeout=timeout)
        return p.returncode, p.stdout
    except subprocess.TimeoutExpired as e:
        return -9, (e.stdout or "") + "\nTIMEOUT"

def main():
    a = sys.argv[1:]
    checks, budget = None, "12"
    if "--checks" in a:
        i = a.index("--checks"); checks = a[i + 1].split(","); del a[i:i + 2]
    if "--budget" in a:
        i = a.index("--budget"); budget = a[i + 1]; del a[i:i + 2]
    prop, n = a[0], a[1]
    src = os.path.join(os.environ.get("SEED_SRC", "/var/tmp/wave1"), prop, n)
    if len(a) >= 4:
        demo_src, demo_dest = a[2], a[3]
        test_args = " ".join(a[4:])
    else:
        m = json.load(open(os.path.join(src, "meta.json")))
        demo_src = "demo_test.go.txt"
        demo_dest, test_args = m["demo_dest"], m["demo_run"]
    patch = os.path.join(src, "patch.diff")
    d = tempfile.mkdtemp(prefix="seed-", dir="/var/tmp")
    out = {"property": prop, "n": n}
    try:
        for name in ("clean", "patched"):
            subprocess.run(["rsync", "-a", "--exclude", ".git", "/repo/", os.path.join(d, name) + "/"], check=True)
        rc, o = sh("git init -q . && git add -A >/dev/null && git apply --whitespace=nowarn %s" % patch, os.path.join(d, "patched"))
        if rc != 0:
            rc, o = sh("patch -p1 --no-backup-if-mismatch < %s" % patch, os.path.join(d, "patched"))
        out["patch_applies"] = rc == 0
        if rc != 0:
            out["apply_output"] = o[-1500:]
            print(json.dumps(out, indent=1)); return
        shutil.rmtree(os.path.join(d, "patched", ".git"), ignore_errors=True)
        rc, o = sh("go build ./... && go build -tags verif ./... && go test -vet=off -count=1 -timeout 150s ./...", os.path.join(d, "patched"))
        if rc != 0 and "pkg/output" in o and o.count("FAIL\t") == 1:
            rc, o = sh("go test -vet=off -count=1 -timeout 150s ./...", os.path.join(d, "patched"))
        out["suite_passes_with_patch"] = rc == 0
        if rc != 0:
            out["suite_output"] = o[-2000:]
        for name in ("clean", "patched"):
            dest = os.path.join(d, name, demo_dest)
            shutil.copy(os.path.join(src, demo_src), dest)
            rc, o = sh("go test -vet=off -count=1 -timeout 200s %s" % test_args, os.path.join(d, name))
            out["demo_%s" % name] = "PASS" if rc == 0 else "FAIL"
            out["demo_%s_tail" % name] = o[-600:]
            os.remove(dest)
        ok = out["suite_passes_with_patch"] and out["demo_clean"] == "PASS" and out["demo_patched"] == "FAIL"
        out["accepted"] = ok
        # run the checks against the patched copy
        if checks is None:
            checks = [prop]
        env = dict(os.environ, VERIF_REPO=os.path.join(d, "patched"), VERIF_BUILD=os.path.join(d, "build"), VERIF_OUT=os.path.join(d, "vout"), VERIF_BUDGET_S=budget)
        out["checks"] = {}
        for c in checks:
            tier = "quick"
            if c.endswith("+"):
                c, tier = c[:-1], "thorough"
            p = subprocess.run(["python3", os.path.join(VERIF, "bin", "vcheck.py"), c, tier], env=env, stdout=subprocess.PIPE, stderr=subprocess.PIPE, text=True)
            rules = re.findall(r"violation: rule=(\S+) (.*)", p.stdout)
            out["checks"][c] = {"exit": p.returncode, "tier": tier, "rules": [r[0] for r in rules], "first_msg": rules[0][1][:300] if rules else "", "tail": p.stdout[-200:] if p.returncode not in (0, 1) else ""}
            if p.returncode == 2:
                out["checks"][c]["stderr"] = p.stderr[-800:]
        if ok:
            dest = os.path.join(VERIF, "seeded", "%s-%s%s" % (prop, os.environ.get("SEED_TAG", ""), n))
            os.makedirs(dest, exist_ok=True)
            shutil.copy(patch, os.path.join(dest, "patch.diff"))
            shutil.copy(os.path.join(src, demo_src), os.path.join(dest, demo_src))
            meta = json.load(open(os.path.join(src, "meta.json")))
            meta["evaluated"] = {"ran": "bin/seedeval.py %s" % " ".join(sys.argv[1:]), "budget_s": int(budget), "suite_passes_with_patch": True, "demo_clean": "PASS", "demo_patched": "FAIL",
                                 "demo_dest": demo_dest, "demo_cmd": "go test -vet=off -count=1 " + test_args, "checks": out["checks"]}
            json.dump(meta, open(os.path.join(dest, "meta.json"), "w"), indent=1)
        print(json.dumps(out, indent=1))
    finally:
        shutil.rmtree(d, ignore_errors=True)

main()

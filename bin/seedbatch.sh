#!/bin/bash
# usage: seedbatch.sh P1 P2 ...   evaluates wave-2 deliveries of the given properties (2 at a time)
export SEED_SRC=/var/tmp/wave${WAVE:-2} SEED_TAG=w${WAVE:-2}-
cd /verif
for p in "$@"; do
  mkdir -p /var/tmp/wave${WAVE:-2}/$p; cp -r /tmp/wt${WAVE:-2}/$p/out/. /var/tmp/wave${WAVE:-2}/$p/
  for n in 1 2; do
    [ -d /var/tmp/wave${WAVE:-2}/$p/$n ] || continue
    python3 bin/seedeval.py $p $n ${CHECKS:+--checks $CHECKS} > /var/tmp/se${WAVE:-2}_${p}_$n.json 2>&1 &
  done
  wait
done
for p in "$@"; do for n in 1 2; do f=/var/tmp/se${WAVE:-2}_${p}_$n.json; [ -f $f ] || continue; echo "== $p/$n"; python3 -c "
import json,sys
try:
    o=json.load(open('$f'))
    print({k:o.get(k) for k in ('patch_applies','suite_passes_with_patch','demo_clean','demo_patched','accepted')}); print(json.dumps(o.get('checks'))[:900]); 
    if not o.get('accepted'): print(o.get('apply_output','')[:300], o.get('suite_output','')[-500:], o.get('demo_clean_tail','')[-300:])
except Exception as e: print('ERR', e, open('$f').read()[-800:])
"; done; done

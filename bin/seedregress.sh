#!/bin/bash
# re-evaluates every stored seeded change whose delivery directory is still under /var/tmp/wave<N> (3 at a time)
cd /verif
run() { # wave prop n tag
  local src=/var/tmp/wave$1 p=$2 n=$3 tag=$4 extra=""
  [ -d $src/$p/$n ] || return
  if [ ! -f $src/$p/$n/demo_test.go.txt ] || ! grep -q demo_dest $src/$p/$n/meta.json 2>/dev/null; then
    extra=$(python3 - <<PY
import json
m=json.load(open('/verif/seeded/$p-$tag$n/meta.json'))
r=m.get('evaluated',{}).get('ran','')
print(' '.join(r.split()[3:]))
PY
)
  fi
  SEED_SRC=$src SEED_TAG=$tag python3 bin/seedeval.py $p $n $extra > /var/tmp/rg_${p}-${tag}${n}.json 2>&1
}
jobs_n=0
for w in 1 2 3 4 5 6 7 8; do
  tag="w$w-"; [ $w = 1 ] && tag=""
  for d in seeded/*; do
    b=$(basename $d); p=${b%%-*}; rest=${b#*-}
    case "$b" in D9-revert) continue;; esac
    if [ $w = 1 ]; then case "$rest" in w*) continue;; esac; n=$rest; else case "$rest" in w$w-*) n=${rest#w$w-};; *) continue;; esac; fi
    run $w $p $n "$tag" &
    jobs_n=$((jobs_n+1))
    if [ $jobs_n -ge 3 ]; then wait; jobs_n=0; fi
  done
done
wait
python3 bin/seedindex.py

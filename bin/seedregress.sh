#!/bin/bash
# Re-evaluates every stored seeded change (seeded/<P>-<n>/, seeded/<P>-w<k>-<n>/) with the machinery as it is
# now, 3 at a time, from the copies kept in /verif/seeded (patch, demonstration, meta.json), and regenerates
# seeded/INDEX.md. Scratch space: /var/tmp/seedsrc-$$ (removed at the end). usage: seedregress.sh [id-prefix]
cd "$(dirname "$0")/.."
SRC=/var/tmp/seedsrc-$$
rm -rf $SRC; mkdir -p $SRC
python3 - "$SRC" "${1:-}" <<'PY'
import json, os, re, shutil, sys
src, prefix = sys.argv[1], sys.argv[2]
jobs = []
for d in sorted(os.listdir("seeded")):
    m = re.match(r"^(C\d\d)-(w\d+-)?(\d+)$", d)
    mp = os.path.join("seeded", d, "meta.json")
    if not m or not os.path.exists(mp) or not d.startswith(prefix):
        continue
    p, tag, n = m.group(1), m.group(2) or "", m.group(3)
    meta = json.load(open(mp))
    ev = meta.get("evaluated") or {}
    demos = [f for f in os.listdir(os.path.join("seeded", d)) if f.endswith(".go.txt") or f.endswith(".go")]
    if not demos or not ev.get("demo_dest") or not ev.get("demo_cmd"):
        continue   # (C08-2: a shell demonstration, evaluated by hand)
    args = re.sub(r"^go test -vet=off -count=1 (-timeout \S+ )?", "", ev["demo_cmd"])
    wave = tag or "w1-"
    dst = os.path.join(src, wave, p, n)
    os.makedirs(dst)
    shutil.copy(os.path.join("seeded", d, "patch.diff"), dst)
    shutil.copy(os.path.join("seeded", d, demos[0]), os.path.join(dst, "demo_test.go.txt"))
    meta["demo_dest"], meta["demo_run"] = ev["demo_dest"], args
    json.dump(meta, open(os.path.join(dst, "meta.json"), "w"))
    jobs.append("%s %s %s %s" % (os.path.join(src, wave), tag, p, n))
open(os.path.join(src, "jobs.txt"), "w").write("\n".join(jobs) + "\n")
print(len(jobs), "changes")
PY
k=0
while read -r dir tag p n; do
  [ -z "$p" ] && continue
  if [ -z "$n" ]; then n=$p; p=$tag; tag=""; fi   # wave 1 has an empty tag column
  SEED_SRC=$dir SEED_TAG=$tag python3 bin/seedeval.py $p $n > $SRC/result_${p}-${tag}${n}.json 2>&1 &
  k=$((k+1)); if [ $k -ge 3 ]; then wait; k=0; fi
done < $SRC/jobs.txt
wait
python3 - "$SRC" <<'PY'
import glob, json, sys
for f in sorted(glob.glob(sys.argv[1] + "/result_*.json")):
    try:
        o = json.load(open(f))
    except Exception:
        print(f.split("result_")[1][:-5], "no result"); continue
    ch = o.get("checks") or {}
    odd = [k + ":" + str(v.get("exit")) for k, v in ch.items() if v.get("exit") not in (0, 1)]
    if odd or o.get("accepted") is not True:
        print(f.split("result_")[1][:-5], "accepted=", o.get("accepted"), "patch_applies=", o.get("patch_applies"), "demo_clean=", o.get("demo_clean"), odd)
PY
python3 bin/seedindex.py
rm -rf $SRC

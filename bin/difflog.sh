#!/bin/bash
# dev helper: run one index N times and diff the event logs. usage: difflog.sh ENGINE PROFILE INDEX [N] [base]
cd /verif; export GODEBUG=asynctimerchan=0 GOMAXPROCS=${GMP:-1}
N=${4:-8}
for i in $(seq 1 $N); do VSIM_JOB="{\"engine\":\"$1\",\"prop\":\"X\",\"profile\":\"$2\",\"tier\":\"quick\",\"base\":${5:-424242},\"worker\":0,\"workers\":1,\"indices\":[$3],\"full\":true}" ./build/sim.test -test.run '^TestVerifWorker$' -test.timeout 120s 2>&1 | python3 -c "
import sys,json
for l in sys.stdin:
    if l.startswith('{'):
        r=json.loads(l)
        if r.get('type')=='end':
            open('/var/tmp/log_$i.txt','w').write(json.dumps(r['sample'])[:600]+'\n'+'\n'.join(x[5:9]+x[20:] for x in r['log']))
            print(r['hash'], r['nchoices'])
"; done
for i in $(seq 2 $N); do if ! cmp -s /var/tmp/log_1.txt /var/tmp/log_$i.txt; then diff /var/tmp/log_1.txt /var/tmp/log_$i.txt | head -${LINES_MAX:-30}; head -1 /var/tmp/log_1.txt; break; fi; done

#!/usr/bin/env python3
"""Regenerates seeded/INDEX.md from seeded/*/meta.json (the 'evaluated' block written by seedeval.py)."""
import json, os, sys
VERIF = os.path.dirname(os.path.dirname(os.path.abspath(__file__)))
rows, caught, own, missed = [], 0, 0, []
for d in sorted(os.listdir(os.path.join(VERIF, "seeded"))):
    mp = os.path.join(VERIF, "seeded", d, "meta.json")
    if not os.path.exists(mp):
        continue
    m = json.load(open(mp))
    ev = m.get("evaluated") or {}
    checks = ev.get("checks") or {}
    hit = [k for k, v in sorted(checks.items()) if v.get("exit") == 1]
    rules = sorted({r for k in hit for r in checks[k].get("rules", [])})
    if m.get("caught_by") and not hit:
        hit, rules = [m["caught_by"]], []
    det = ", ".join(hit) if hit else "**missed**"
    if hit and ev.get("budget_s", 12) != 12:
        det += " (%d s budget)" % ev["budget_s"]
    if hit:
        caught += 1
        own += m["property"] in hit or any(h.startswith(m["property"]) for h in hit)
    else:
        missed.append(d)
    def cell(s, n):
        return (s or "").replace("|", "/").replace("\n", " ")[:n]
    rows.append("| %s | %s | %s | %s | %s | %s |" % (d, m["property"], det, ", ".join(rules), cell(m.get("summary"), 150), cell(m.get("needs"), 140)))
out = ["# Seeded changes (sub-agent deliveries, each confirmed: builds, existing suite passes, demonstration fails with / passes without the patch)", "",
       "%d changes; %d detected (%d by the check of the property they were written against); not detected: %s" % (len(rows), caught, own, ", ".join(missed) or "none"), "",
       "| id | property | detected by (quick tier, 12 s budget) | rules fired | what the change does | what it needs to manifest |", "|---|---|---|---|---|---|"] + rows
open(os.path.join(VERIF, "seeded", "INDEX.md"), "w").write("\n".join(out) + "\n")
print(out[2])

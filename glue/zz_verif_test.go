package main

// Overlaid into cmd/taskctl by /verif/bin/build.sh (never committed to /repo):
// gives the simulator access to the unexported CLI entry points.

import (
	"testing"

	"github.com/taskctl/taskctl/internal/verifsim"
)

func TestVerifWorker(t *testing.T) {
	verifsim.CLIHooks = verifsim.CLIHooksT{
		RunApp: func(args []string) error {
			return makeApp().Run(args)
		},
		ResetCancel: func() { cancel = make(chan struct{}) },
		Abort:       func() { abort() },
	}
	verifsim.WorkerMain(t)
}

package verifsim

import (
	"fmt"
	"sort"
	"strings"
)

// CLI profile: generated configuration + argv of 1..4 targets (tasks and pipelines) through the
// in-process command line. Serves the CLI clauses of C07 (targets in argv order, nothing after
// the first failing target, error iff a target failed) and of C14 (down once at shutdown, after
// all tasks, for used contexts, whether the target succeeded or failed).

type cliTarget struct {
	Name     string
	Pipeline bool
	Tasks    []string // tasks this target may execute
}

func GenCLIWorld(ch *Choices, thorough bool) (*IntegWorld, []cliTarget) {
	w := &IntegWorld{Plans: map[string]*ExecPlan{}, Format: "raw", ViaConfig: true}
	nctx := ch.Choose(3, "n-ctx")
	for i := 0; i < nctx; i++ {
		cs := &CtxSpec{Name: fmt.Sprintf("c%d", i), NUp: ch.Choose(2, "nup"), NDown: ch.Range(1, 2, "ndown"), NBefore: ch.Choose(2, "ncb"), NAfter: ch.Choose(2, "nca")}
		w.Contexts = append(w.Contexts, cs)
	}
	nt := ch.Range(1, 4, "n-targets")
	var targets []cliTarget
	tcount := 0
	newTask := func() *TaskSpec {
		t := &TaskSpec{Name: fmt.Sprintf("t%d", tcount), NCmd: ch.Range(1, 2, "ncmd")}
		tcount++
		if ch.Bool(1, 4, "has-before") {
			t.NBefore = 1
		}
		if ch.Bool(1, 4, "has-after") {
			t.NAfter = 1
		}
		t.Cond = ch.Bool(1, 6, "cond")
		t.Allow = ch.Bool(1, 5, "allow")
		if nctx > 0 && ch.Bool(2, 3, "in-ctx") {
			t.Context = w.Contexts[ch.Choose(nctx, "which-ctx")].Name
		}
		timesOut := ch.Bool(1, 7, "times-out")
		if timesOut {
			// its first command never finishes by itself and is killed by the task's timeout: the
			// task failed (also with allow_failure), whatever form its error takes on the way up
			t.TimeoutMS = 200 + ch.Choose(400, "timeout-ms")
			t.NBefore, t.Cond = 0, false
		}
		w.Tasks = append(w.Tasks, t)
		for _, p := range taskPositions(t) {
			pl := &ExecPlan{DurMS: ch.Choose(50, "dur")}
			if p.block == "cmd" && ch.Bool(1, 5, "cmd-fails") {
				pl.Exit = genExit(ch)
			}
			if timesOut && p.block == "cmd" && p.idx == 0 {
				pl = &ExecPlan{DurMS: -1}
			}
			w.Plans[execID(t.Name, p.block, p.idx, p.v)] = pl
		}
		if t.Cond {
			w.Plans[execID(t.Name, "cond", 0, "")] = &ExecPlan{Exit: []int{0, 0, 1}[ch.Choose(3, "cond-exit")]}
		}
		return t
	}
	for i := 0; i < nt; i++ {
		if ch.Bool(1, 3, "pipeline-target") {
			g := &GraphSpec{Name: fmt.Sprintf("p%d", i)}
			ns := ch.Range(1, 3, "n-stages")
			tg := cliTarget{Name: g.Name, Pipeline: true}
			for k := 0; k < ns; k++ {
				t := newTask()
				s := &StageSpec{Name: t.Name, Allow: ch.Bool(1, 4, "stage-allow")}
				if k > 0 && ch.Bool(1, 2, "dep") {
					s.Deps = []string{g.Stages[ch.Choose(k, "dep-which")].Name}
				}
				g.Stages = append(g.Stages, s)
				tg.Tasks = append(tg.Tasks, t.Name)
			}
			if w.Graph == nil {
				w.Graph = g
			} else {
				w.ExtraGraphs = append(w.ExtraGraphs, g)
			}
			targets = append(targets, tg)
		} else {
			t := newTask()
			targets = append(targets, cliTarget{Name: t.Name, Tasks: []string{t.Name}})
		}
	}
	// a pipeline that nests one of the later pipeline targets: that target has then already been run
	// (inside the nesting stage) when its own turn comes - it is not run again, and it failed
	// exactly if it failed then
	for j, tg := range targets {
		if !tg.Pipeline || j == 0 && len(targets) == 1 && false {
			continue
		}
		if !ch.Bool(1, 4, "nested-by-an-earlier-target") {
			continue
		}
		inner := w.GraphByName(tg.Name)
		outer := &GraphSpec{Name: fmt.Sprintf("outer%d", j)}
		ot := cliTarget{Name: outer.Name, Pipeline: true}
		if ch.Bool(1, 2, "plain-stage-too") {
			t := newTask()
			outer.Stages = append(outer.Stages, &StageSpec{Name: t.Name})
			ot.Tasks = append(ot.Tasks, t.Name)
		}
		ns := &StageSpec{Name: "n" + tg.Name, Nested: inner, Allow: ch.Bool(2, 3, "nesting-stage-allow")}
		outer.Stages = append(outer.Stages, ns)
		ot.Tasks = append(ot.Tasks, tg.Tasks...)
		w.ExtraGraphs = append(w.ExtraGraphs, outer)
		pos := ch.Choose(j+1, "outer-position")
		targets = append(targets[:pos], append([]cliTarget{ot}, targets[pos:]...)...)
		break
	}
	// a task that is defined but not requested
	newTask()
	form := ch.Choose(3, "argv-form") // 0: root action, 1: `run`, 2: `run` with the noise word `pipeline` skipped by the CLI
	var args []string
	if form >= 1 {
		args = append(args, "run")
	}
	for _, t := range targets {
		args = append(args, t.Name)
	}
	if ch.Bool(1, 3, "dash-args") {
		args = append(args, "--", "x1", w.Tasks[len(w.Tasks)-1].Name, "-v", "k=v")
	}
	w.CLIArgs = args
	return w, targets
}

func (e *integEngine) checkCLI(targets []cliTarget) {
	c := e.c
	x := e.computeCLIExpect(targets)
	var dr *driverRec
	for _, d := range e.drivers {
		if d.Spec.Kind == "cli" {
			dr = d
		}
	}
	if dr == nil || !dr.Returned {
		return
	}
	// which target does an exec belong to
	tIdx := map[string]int{}
	for i, t := range targets {
		for _, n := range t.Tasks {
			if _, ok := tIdx[n]; !ok {
				tIdx[n] = i // (a pipeline nested by an earlier target runs there)
			}
		}
	}
	// (1) argv order, no overlap between targets; (2) nothing after the first failing target
	lastEnd := make([]int, len(targets))
	firstStart := make([]int, len(targets))
	for i := range targets {
		lastEnd[i], firstStart[i] = -1, 1<<30
	}
	for _, r := range e.execs {
		i, ok := tIdx[r.Info.Owner]
		if !ok {
			if e.w.Task(r.Info.Owner) != nil {
				c.Violate("C07", "cli-unrequested-task", "task %s was executed although it is not among the requested targets %v", r.Info.Owner, e.w.CLIArgs)
			}
			continue
		}
		if r.StartSeq < firstStart[i] {
			firstStart[i] = r.StartSeq
		}
		if r.EndSeq > lastEnd[i] {
			lastEnd[i] = r.EndSeq
		}
		if x.firstFail >= 0 && i > x.firstFail {
			c.Violate("C07", "cli-ran-after-failed-target", "target %s failed, yet %s of the later target %s was executed", targets[x.firstFail].Name, r.Info.Key, targets[i].Name)
			break
		}
	}
	for i := 1; i < len(targets); i++ {
		for j := 0; j < i; j++ {
			if firstStart[i] < 1<<30 && lastEnd[j] >= 0 && firstStart[i] < lastEnd[j] {
				c.Violate("C07", "cli-target-order", "target %s (argv position %d) started a command (seq %d) before target %s (position %d) had finished (seq %d)", targets[i].Name, i, firstStart[i], targets[j].Name, j, lastEnd[j])
			}
		}
	}
	// (3) process exit status: error iff some target failed
	if (dr.Err != nil) != (x.firstFail >= 0) {
		c.Violate("C07", "cli-exit-status", "taskctl %v returned %s, model: first failing target index %d", e.w.CLIArgs, errString(dr.Err), x.firstFail)
		if x.firstFail >= 0 && targets[x.firstFail].Pipeline && dr.Err == nil {
			c.Violate("C02", "cli-run-reports-no-error", "taskctl %v: a stage of pipeline %s failed without allow_failure and the run reports no error", e.w.CLIArgs, targets[x.firstFail].Name)
		}
	}
	// (4) every target up to the first failing one ran as the sequencing model says
	e.checkC06(x.integ)
	if x.firstFail >= 0 {
		c.Count("cli_runs_with_failing_target")
	}
	if len(targets) >= 2 {
		c.Count("cli_runs_multi_target")
	}
	// C14 CLI clause: down exactly once at shutdown, after all tasks, for used contexts
	for _, cs := range e.w.Contexts {
		owner := "ctx:" + cs.Name
		used := false
		for _, rr := range e.runGID {
			if t := e.w.Task(rr.Task); t != nil && t.Context == cs.Name {
				used = true
			}
		}
		down := map[int]int{}
		for _, r := range e.execsOf(owner) {
			if r.Info.Block != "down" {
				continue
			}
			down[r.Info.Idx]++
			for _, o := range e.execs {
				if o.Info.Block != "down" && o.StartSeq > r.StartSeq {
					c.Violate("C14", "cli-down-before-last-task", "context %s: down command %d ran (seq %d) before %s (seq %d): down must run at shutdown, after all tasks", cs.Name, r.Info.Idx, r.StartSeq, o.Info.Key, o.StartSeq)
					break
				}
			}
		}
		for i := 0; i < cs.NDown; i++ {
			switch {
			case down[i] > 1:
				c.Violate("C14", "cli-down-more-than-once", "context %s: down command %d ran %d times", cs.Name, i, down[i])
			case used && down[i] == 0:
				c.Violate("C14", "cli-down-not-run", "context %s was used but its down command %d did not run (taskctl %v returned %s)", cs.Name, i, e.w.CLIArgs, errString(dr.Err))
			case !used && down[i] > 0:
				c.Violate("C14", "cli-down-unused", "context %s was not used but its down command %d ran", cs.Name, i)
			}
		}
		if used && x.firstFail >= 0 {
			c.Count("cli_used_context_with_failing_target")
		}
	}
}

type cliExpect struct {
	integ     *integExpect
	firstFail int
}

func (e *integEngine) computeCLIExpect(targets []cliTarget) *cliExpect {
	x := &integExpect{task: map[string]*TaskExpect{}, runs: map[string]bool{}}
	for _, t := range e.w.Tasks {
		x.task[t.Name] = ModelTask(e.w, t)
	}
	out := &cliExpect{integ: x, firstFail: -1}
	ranAlready := map[string]bool{} // pipeline name -> it failed, for pipelines that have been scheduled
	for i, tg := range targets {
		failed := false
		if tg.Pipeline {
			g := e.w.GraphByName(tg.Name)
			if f, ok := ranAlready[g.Name]; ok {
				// scheduled before (nested by an earlier target): nothing runs again, the result stands
				failed = f
			} else {
				for _, l := range g.AllLeaves() {
					l.Fail = x.task[e.stageTask(l)].Failed
				}
				dag := EvalDag(g, false)
				for _, l := range g.AllLeaves() {
					if dag.Ran[l.Name] {
						x.runs[e.stageTask(l)] = true
					}
				}
				failed = dag.Err[g.Name]
				if dag.Ambiguous {
					x.dag = dag
				}
				ranAlready[g.Name] = failed
				for _, s := range g.Stages {
					if s.Nested != nil && dag.Status[s.Name] != MCanceled && dag.Status[s.Name] != "" && dag.Status[s.Name] != MWaiting {
						ranAlready[s.Nested.Name] = dag.Err[s.Nested.Name]
					}
				}
			}
		} else {
			x.runs[tg.Name] = true
			failed = x.task[tg.Name].Failed
		}
		if failed {
			out.firstFail = i
			break
		}
	}
	return out
}

func runCLIJob(c *Ctl, job *Job, idx int, res *RunResult) {
	prof := defaultIntegProfile()
	prof.WAdvance = 1
	if job.Profile == "cli12" {
		// cancellation through the command line: abort() (what the signal handler calls) at every step
		world, variant := idx/cancelVariants, idx%cancelVariants
		if !c.Ch.replaying {
			c.Ch.Reseed(seedFor(job.Base^0xc1120001, world))
		}
		w, _ := GenCLIWorld(c.Ch, job.Tier == "thorough")
		var ids []string
		for id := range w.Plans {
			ids = append(ids, id)
		}
		sort.Strings(ids) // never draw choices in map order
		for _, id := range ids {
			pl := w.Plans[id]
			if c.Ch.Bool(1, 4, "ignores-sigint") {
				pl.Intr, pl.IntrMS = "later", []int{1, 300, 2000}[c.Ch.Choose(3, "kill-delay")]
			}
			pl.DurMS += c.Ch.Choose(200, "extra-dur")
		}
		if !c.Ch.replaying {
			c.Ch.Reseed(seedFor(job.Base^0xc1120002, world))
		}
		w.NFaults = 1
		prof.CancelAt = variant
		prof.CancelAfter = true
		prof.UseRunEnter = true
		prof.UseStageStart = true
		res.WorldIdx = world
		res.Sample = map[string]interface{}{"world": w.Summary(), "argv": strings.Join(w.CLIArgs, " "), "abort_at_step": variant}
		e := RunIntegWorld(c, prof, w, res)
		if e == nil {
			return
		}
		e.checkC12(e.computeCLIExpect(nil).integ)
		res.NonTrivial = true
		return
	}
	w, targets := GenCLIWorld(c.Ch, job.Tier == "thorough")
	for _, g := range w.ExtraGraphs {
		if strings.HasPrefix(g.Name, "outer") {
			c.Count("cli_worlds_with_a_target_nested_by_an_earlier_one")
		}
	}
	res.Sample = map[string]interface{}{"world": w.Summary(), "argv": strings.Join(w.CLIArgs, " ")}
	e := RunIntegWorld(c, prof, w, res)
	if e == nil {
		return
	}
	e.checkCLI(targets)
	res.NonTrivial = true
}

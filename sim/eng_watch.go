package verifsim

import (
	"fmt"
	"os"
	"path/filepath"
	"runtime"
	"sort"
	"strings"
	"sync/atomic"
	"time"

	"github.com/fsnotify/fsnotify"

	"github.com/taskctl/taskctl/internal/watch"
	"github.com/taskctl/taskctl/pkg/executor"
	"github.com/taskctl/taskctl/pkg/runner"
	"mvdan.cc/sh/v3/interp"
)

// WATCH engine: the real watcher (Run loop, handle, event filter) and the
// real TaskRunner run in the bubble; fsnotify events are injected into the
// real Events channel the watcher polls once per (simulated) second. inotify
// itself is not exercised.

type WatchEvent struct {
	Op   uint32 `json:"op"`
	Name string `json:"name"`
	// Rush: inject while the previous run of the task is still executing
	Rush bool `json:"rush,omitempty"`
}

type WatchWorld struct {
	Files    []string     `json:"files"` // relative paths (dirs end with /)
	Include  []string     `json:"include"`
	Exclude  []string     `json:"exclude,omitempty"`
	Events   []string     `json:"events,omitempty"` // subscribed event names; empty = all
	History  []WatchEvent `json:"history"`
	TaskDurs []int        `json:"durs"`
	// Relative: patterns are relative and taskctl is "started" in the root of the tree
	Relative bool `json:"relative,omitempty"`
	// NAfter: the watched task has that many `after` commands; Fails[k]: the command of the k-th
	// run of the task (0 = the initial run) exits with status 1. Every run is an execution of the
	// task in its own right (C06): a run whose command succeeds is followed by the after commands,
	// whatever the earlier runs did.
	NAfter int    `json:"nafter,omitempty"`
	Fails  []bool `json:"fails,omitempty"`
	// TimeoutMS: the watched task has a timeout; runs whose command takes longer are cut short
	// (a failed run like any other: the watcher goes on serving events)
	TimeoutMS int `json:"timeout_ms,omitempty"`
}

var opNames = map[uint32]string{1: "create", 2: "write", 4: "remove", 8: "rename", 16: "chmod"}

// ---- reference matcher for the pattern grammar (literal, *, ?, ** as a whole segment) ----

func matchSegment(pat, name string) bool {
	// * and ? do not cross '/'
	if pat == "" {
		return name == ""
	}
	switch pat[0] {
	case '*':
		for i := 0; i <= len(name); i++ {
			if matchSegment(pat[1:], name[i:]) {
				return true
			}
		}
		return false
	case '?':
		return len(name) > 0 && matchSegment(pat[1:], name[1:])
	default:
		return len(name) > 0 && name[0] == pat[0] && matchSegment(pat[1:], name[1:])
	}
}

func matchPath(pat, name []string) bool {
	if len(pat) == 0 {
		return len(name) == 0
	}
	if pat[0] == "**" {
		for i := 0; i <= len(name); i++ {
			if matchPath(pat[1:], name[i:]) {
				return true
			}
		}
		return false
	}
	return len(name) > 0 && matchSegment(pat[0], name[0]) && matchPath(pat[1:], name[1:])
}

func refMatch(pattern, path string) bool {
	return matchPath(strings.Split(pattern, "/"), strings.Split(path, "/"))
}

// refSelect: every existing path (file or directory) under root matching an include and no exclude.
func refSelect(root string, all []string, include, exclude []string) []string {
	set := map[string]bool{}
	for _, rel := range all {
		rel = strings.TrimSuffix(rel, "/")
		full := root + "/" + rel
		for _, inc := range include {
			if !refMatch(root+"/"+inc, full) {
				continue
			}
			ex := false
			for _, e := range exclude {
				if refMatch(root+"/"+e, full) {
					ex = true
				}
			}
			if !ex {
				set[full] = true
			}
		}
	}
	var out []string
	for p := range set {
		out = append(out, p)
	}
	sort.Strings(out)
	return out
}

var watchDirs = []string{"src", "src/pkg", "docs", "src/pkg/deep"}
var watchFileNames = []string{"a.go", "b.go", "main.go", "x1.md", "x2.md", "notes.txt", "c.txt", "Makefile"}
var watchPatterns = []string{"**/*.go", "*.go", "src/*", "**", "**/*", "src/**/*.go", "docs/*.md", "**/x?.md", "src/pkg/a.go", "*", "**/*.txt", "src/pkg/*/*.go", "**/pkg/*", "Makefile", "d*/*"}

func GenWatchWorld(ch *Choices, thorough bool) *WatchWorld {
	w := &WatchWorld{}
	seen := map[string]bool{}
	add := func(p string) {
		if !seen[p] {
			seen[p] = true
			w.Files = append(w.Files, p)
		}
	}
	nd := ch.Choose(len(watchDirs)+1, "n-dirs")
	for i := 0; i < nd; i++ {
		d := watchDirs[i]
		add(d + "/")
	}
	nf := ch.Range(1, 10, "n-files")
	for i := 0; i < nf; i++ {
		name := watchFileNames[ch.Choose(len(watchFileNames), "file-name")]
		k := ch.Choose(nd+1, "file-dir")
		if k > 0 {
			name = watchDirs[k-1] + "/" + name
		}
		add(name)
	}
	ni := ch.Range(1, 3, "n-include")
	for i := 0; i < ni; i++ {
		w.Include = append(w.Include, watchPatterns[ch.Choose(len(watchPatterns), "include")])
	}
	if ch.Bool(1, 2, "include-existing") {
		f := strings.TrimSuffix(w.Files[ch.Choose(len(w.Files), "existing")], "/")
		if i := strings.LastIndexByte(f, '/'); i > 0 && ch.Bool(1, 2, "its-dir") {
			f = f[:i] + "/*"
		}
		w.Include = append(w.Include, f)
	}
	ne := ch.Weighted([]int{3, 2, 1}, "n-exclude")
	for i := 0; i < ne; i++ {
		w.Exclude = append(w.Exclude, watchPatterns[ch.Choose(len(watchPatterns), "exclude")])
	}
	if !ch.Bool(1, 3, "all-events") {
		for _, n := range []string{"create", "write", "remove", "rename", "chmod"} {
			if ch.Bool(1, 2, "subscribe") {
				w.Events = append(w.Events, n)
			}
		}
	}
	max := 6
	if thorough {
		max = 9
	}
	nh := ch.Range(1, max, "n-events")
	for i := 0; i < nh; i++ {
		var op uint32
		switch ch.Weighted([]int{10, 1, 1}, "op-kind") {
		case 0:
			op = 1 << uint(ch.Choose(5, "op"))
		case 1:
			op = (1 << uint(ch.Choose(5, "op1"))) | (1 << uint(ch.Choose(5, "op2")))
		default:
			op = 0
		}
		w.History = append(w.History, WatchEvent{Op: op, Name: "", Rush: ch.Bool(1, 4, "rush")})
		w.TaskDurs = append(w.TaskDurs, ch.Choose(1500, "task-dur"))
	}
	w.TaskDurs = append(w.TaskDurs, ch.Choose(1500, "task-dur"))
	w.Relative = ch.Bool(1, 2, "relative-patterns")
	if ch.Bool(1, 3, "task-timeout") {
		w.TimeoutMS = 300 + ch.Choose(900, "timeout-ms")
	}
	if ch.Bool(1, 2, "after-hooks") {
		w.NAfter = ch.Range(1, 2, "n-after")
		for i := 0; i <= nh; i++ {
			w.Fails = append(w.Fails, ch.Bool(1, 3, "run-fails"))
		}
	}
	return w
}

func runWatchJob(c *Ctl, job *Job, idx int, res *RunResult, pre *watchPre) {
	w := pre.w
	res.Sample = map[string]interface{}{"world": w, "selected_paths": len(pre.selected)}
	if pre.err != nil {
		res.HarnessErr = "watch setup: " + pre.err.Error()
		return
	}
	// set-up invariant (pure part): selected paths == reference matcher
	got := append([]string(nil), pre.selected...)
	for i, p := range got {
		if !filepath.IsAbs(p) {
			got[i] = pre.root + "/" + p
		}
	}
	sort.Strings(got)
	uniq := got[:0]
	for i, p := range got {
		if i == 0 || p != got[i-1] {
			uniq = append(uniq, p)
		}
	}
	want := refSelect(pre.root, w.Files, w.Include, w.Exclude)
	if strings.Join(uniq, "\n") != strings.Join(want, "\n") {
		c.Violate("C20", "selected-paths", "include %v exclude %v on tree %v: watcher selected %v, reference matcher %v", w.Include, w.Exclude, w.Files, relAll(pre.root, uniq), relAll(pre.root, want))
	}
	c.Counters["c20_selected_paths"] += len(want)
	if len(want) == 0 {
		c.Count("c20_worlds_without_paths")
	}

	pl := newProcLayer(c)
	pl.envF = envFilter
	var execs []*ExecInfo    // executions of the task's command, in start order (= runs of the task)
	var allExecs []*ExecInfo // including after hooks
	exitOf := map[string]int{}
	consumed := 0
	ended := map[string]bool{}
	runReturned := false
	c.onEvent = func(ev *Event) {
		switch ev.Kind {
		case "exec-start":
			info := ev.Data.(*ExecInfo)
			allExecs = append(allExecs, info)
			if info.Block == "cmd" {
				if k := len(execs); k < len(w.Fails) && w.Fails[k] {
					exitOf[info.Key] = 1
				}
				execs = append(execs, info)
			}
		case "exec-end":
			ended[ev.Subject] = true
		case "watch-run-return":
			runReturned = true
		case "event-consumed":
			consumed++
		}
	}
	executor.VerifInterpOptions = []interp.RunnerOption{interp.ExecHandler(pl.Handler)}
	defer func() { executor.VerifInterpOptions = nil }()
	// every run of the task parks at Run entry: the next event can be delivered while the run
	// triggered by the previous one has not even merged its environment yet
	var runSeq int32
	runner.VerifYield = func(kind string, subj interface{}) {
		if kind == "run-enter" {
			c.Yield("run-enter", fmt.Sprintf("wt#%d", atomic.AddInt32(&runSeq, 1)), nil)
		}
	}
	defer func() { runner.VerifYield = nil }()
	tr, err := runner.NewTaskRunner()
	if err != nil {
		res.HarnessErr = err.Error()
		return
	}
	sink := &recSink{c: c}
	tr.Stdout, tr.Stderr = sink, sink
	tr.Stdin = strings.NewReader("")
	wt := pre.watcher
	wt.VerifRebind()
	events := make(chan fsnotify.Event) // created in the bubble: a pending send is a durable block
	orig := wt.VerifSetEvents(events)
	go func() {
		err := wt.Run(tr)
		c.Note("watch-run-return", "", errString(err))
	}()

	subscribed := func(op uint32) (string, bool) {
		name, ok := opNames[op]
		if !ok {
			return "", false
		}
		if len(w.Events) == 0 {
			return name, true
		}
		for _, e := range w.Events {
			if e == name {
				return name, true
			}
		}
		return name, false
	}
	durIdx := 0
	dur := func() time.Duration {
		d := time.Duration(w.TaskDurs[durIdx%len(w.TaskDurs)]) * time.Millisecond
		return d
	}
	// settle: let the running task command(s) finish
	finishRuns := func(limit time.Duration) {
		start := c.Now()
		for c.Now()-start < limit {
			c.Quiesce()
			parks := c.ParkedOf("exec", "exec-dying", "run-enter")
			if len(parks) == 0 {
				c.Advance(time.Second)
				c.Quiesce()
				if len(c.ParkedOf("exec", "exec-dying", "run-enter")) == 0 {
					return
				}
				continue
			}
			for _, p := range parks {
				if p.Kind == "exec-dying" {
					c.Release(p, Action{Kind: "die"})
				} else if p.Kind == "run-enter" {
					c.Release(p, Action{Kind: "go"})
				} else {
					info := p.Data.(*ExecInfo)
					if info.Block == "cmd" && c.Now()-info.StartAt < dur() {
						continue
					}
					c.Release(p, Action{Kind: "exit", Code: exitOf[info.Key]})
				}
			}
			c.Advance(250 * time.Millisecond)
		}
	}
	c.Quiesce()
	// the paths are registered with the kernel before the start-up run of the task begins: what
	// happens to them while that run is still going must not be lost
	if n := inotifyWatches(pre.inoFDs); pre.baseWatches >= 0 && n >= 0 && len(c.ParkedOf("exec", "run-enter")) > 0 {
		if n != len(want) {
			c.Violate("C20", "registered-after-first-run", "the start-up run of the task is in progress and the watcher has registered %d of its %d selected path(s) with the kernel: events during that run are lost", n, len(want))
		}
		c.Count("c20_registration_checked_during_first_run")
	}
	// the initial run
	finishRuns(10 * time.Second)
	if len(execs) != 1 {
		c.Violate("C20", "initial-run", "the watcher must run its task once when it starts: %d command executions", len(execs))
	}
	// what the watcher registered with the kernel (the real inotify instance behind fsnotify; read
	// from /proc/self/fdinfo) is exactly the selected set: one watch per selected path
	registered := func() int { return inotifyWatches(pre.inoFDs) }
	if n := registered(); n >= 0 && pre.baseWatches >= 0 {
		if n != len(want) {
			c.Violate("C20", "registered-paths", "the watcher selected %d path(s) %v but registered %d watch(es) with the kernel", len(want), relAll(pre.root, want), n)
		}
		c.Count("c20_registration_checked")
	}
	grewFor := ""
	var unselectedChildren []string
	{
		sel := map[string]bool{}
		for _, p := range want {
			sel[p] = true
		}
		for _, f := range w.Files {
			if strings.HasSuffix(f, "/") {
				continue
			}
			full := pre.root + "/" + f
			if !sel[full] && sel[filepath.Dir(full)] {
				unselectedChildren = append(unselectedChildren, full)
			}
		}
		sort.Strings(unselectedChildren)
	}
	names := append([]string(nil), want...)
	expected := map[string]int{} // "eventname path" -> number of subscribed events of that kind
	noise := false
	for i := range w.History {
		ev := &w.History[i]
		if len(names) == 0 {
			break
		}
		// events are only ever delivered for observed paths (or children of observed directories)
		target := names[c.Ch.Choose(len(names), "event-path")]
		if st, err := os.Stat(target); err == nil && st.IsDir() && c.Ch.Bool(1, 2, "child-of-dir") {
			target = target + "/new-" + genWord(c.Ch, 4)
		}
		if ev.Op == 1 && len(unselectedChildren) > 0 && c.Ch.Bool(1, 2, "create-event-for-unselected-child") {
			// a create event for a file that lies in an observed directory but is itself not
			// selected by the patterns (the kernel reports children of a watched directory): the
			// file must never become an observed path of its own
			target = unselectedChildren[c.Ch.Choose(len(unselectedChildren), "which-child")]
			if grewFor == "" {
				grewFor = target
			}
			c.Count("c20_create_events_for_unselected_children")
		}
		if w.Relative {
			target = relOne(pre.root, target)
		}
		ev.Name = target
		durIdx = i + 1
		before := len(execs)
		acked := consumed
		c.LogCtl("fs-event", fmt.Sprintf("%d", ev.Op), relOne(pre.root, target))
		fev := fsnotify.Event{Name: target, Op: fsnotify.Op(ev.Op)}
		abandon := make(chan struct{})
		go func() {
			select {
			case events <- fev:
				c.Note("event-consumed", "", "")
			case <-abandon:
			}
		}()
		polls := 0
		for consumed == acked {
			if polls > 15 {
				c.Violate("C20", "event-not-consumed", "event %d (%s on %s) was not taken from the event channel within %d polls: the watcher stopped serving", i, fsnotify.Op(ev.Op), relOne(pre.root, target), polls)
				close(abandon)
				break
			}
			c.holdBatch = true
			c.Advance(time.Second)
			c.holdBatch = false
			polls++
		}
		c.Counters[fmt.Sprintf("c20_op_%s", fsnotify.Op(ev.Op).String())]++
		if ev.Rush && i+1 < len(w.History) {
			// leave the triggered run executing while the next event arrives
			c.Quiesce()
			c.Count("c20_event_while_previous_run_executing")
		} else {
			finishRuns(10 * time.Second)
		}
		name, sub := subscribed(ev.Op)
		_, known := opNames[ev.Op]
		if !known {
			c.Count("c20_combined_or_zero_op")
			noise = true // combined / zero op: the statement does not say which type that is
			continue
		}
		if sub {
			c.Count("c20_subscribed_events")
			expected[name+" "+target]++
		} else {
			c.Count("c20_unsubscribed_events")
		}
		_ = before
	}
	finishRuns(10 * time.Second)
	c.Quiesce()
	// every subscribed event ran the task exactly once with its own EventName / EventPath; nothing else ran it
	observed := map[string]int{}
	for k, x := range execs {
		if k == 0 {
			continue // the initial run
		}
		observed[x.Env["EventName"]+" "+x.Env["EventPath"]]++
	}
	{
		keys := map[string]bool{}
		for k := range expected {
			keys[k] = true
		}
		for k := range observed {
			keys[k] = true
		}
		var ks []string
		for k := range keys {
			ks = append(ks, k)
		}
		sort.Strings(ks)
		for _, k := range ks {
			known := false
			for _, n := range opNames {
				if strings.HasPrefix(k, n+" ") {
					known = true
				}
			}
			if !known {
				c.Count("c20_runs_for_unconstrained_ops")
				continue // a run for a combined / zero op: the statement does not say which type that is
			}
			switch {
			case observed[k] < expected[k]:
				c.Violate("C20", "subscribed-event-not-served", "%d subscribed event(s) \"%s\" (subscribed: %v) but the task ran %d time(s) with that EventName / EventPath; all runs: %v", expected[k], relOne(pre.root, k), w.Events, observed[k], relKeys(pre.root, observed))
			case observed[k] > expected[k]:
				c.Violate("C20", "unexpected-run", "the task ran %d time(s) with EventName / EventPath \"%s\" but only %d subscribed event(s) of that kind were delivered (subscribed: %v)", observed[k], relOne(pre.root, k), expected[k], w.Events)
			}
		}
	}
	_ = noise
	if grewFor != "" && pre.baseWatches >= 0 {
		if n := registered(); n > len(want) {
			c.Violate("C20", "observed-set-grew", "a create event was delivered for %s, which lies in an observed directory but is not selected by the patterns, and the watcher now has %d kernel watches for %d selected path(s)", relOne(pre.root, grewFor), n, len(want))
		}
		c.Count("c20_growth_checked")
	}
	// C06 for every run of the task: command, then (iff it succeeded) the after commands, once each
	if w.NAfter > 0 {
		byG := map[int64][]*ExecInfo{}
		var gids []int64
		for _, x := range allExecs {
			if _, ok := byG[x.GID]; !ok {
				gids = append(gids, x.GID)
			}
			byG[x.GID] = append(byG[x.GID], x)
		}
		for k, g := range gids {
			var got []string
			for _, x := range byG[g] {
				got = append(got, x.ID)
			}
			want := []string{execID("wt", "cmd", 0, "")}
			failed := exitOf[byG[g][0].Key] != 0 || byG[g][0].CtxDone
			if byG[g][0].CtxDone {
				c.Count("c20_runs_cut_short_by_the_task_timeout")
			}
			if !failed {
				for i := 0; i < w.NAfter; i++ {
					want = append(want, execID("wt", "after", i, ""))
				}
			}
			if strings.Join(got, " ") != strings.Join(want, " ") {
				c.Violate("C06", "rerun-sequence", "run %d of the watched task (command exit status %d; earlier runs failed: %v) executed %v, want %v", k, exitOf[byG[g][0].Key], w.Fails[:minInt(k, len(w.Fails))], got, want)
				break
			}
			c.Count("c06_watch_runs_checked")
			if !failed && k > 0 && anyTrue(w.Fails[:minInt(k, len(w.Fails))]) {
				c.Count("c06_successful_rerun_after_failed_run")
			}
		}
	}
	// shut down
	wt.VerifSetEvents(orig)
	go func() {
		wt.Close()
		c.Note("watch-closed", "", "")
	}()
	for i := 0; i < 10 && !runReturned; i++ {
		c.Advance(time.Second)
	}
	if !runReturned {
		c.Count("c20_run_did_not_return_after_close")
	}
	// a second watcher served by the same TaskRunner, started after the first one was closed: the
	// end of one watcher must not take the runner away from the others
	if wt2 := pre.watcher2; wt2 != nil && runReturned {
		pre.w2used = true
		wt2.VerifRebind()
		events2 := make(chan fsnotify.Event)
		orig2 := wt2.VerifSetEvents(events2)
		run2Returned := false
		prev := c.onEvent
		c.onEvent = func(ev *Event) {
			if ev.Kind == "watch2-run-return" {
				run2Returned = true
			}
			prev(ev)
		}
		go func() {
			err := wt2.Run(tr)
			c.Note("watch2-run-return", "", errString(err))
		}()
		before := len(execs)
		durIdx = 0
		c.Quiesce()
		finishRuns(10 * time.Second)
		if len(execs) != before+1 {
			c.Violate("C20", "second-watcher-initial-run", "a second watcher started on the same runner after the first watcher was closed must run its task once: %d command executions", len(execs)-before)
		} else if len(names) > 0 {
			// one subscribed event for it
			op := uint32(2)
			for _, o := range []uint32{2, 1, 4, 8, 16} {
				if _, sub := subscribed(o); sub {
					op = o
					break
				}
			}
			target := names[c.Ch.Choose(len(names), "event-path-2")]
			if w.Relative {
				target = relOne(pre.root, target)
			}
			before = len(execs)
			acked := consumed
			c.LogCtl("fs-event-2", fmt.Sprintf("%d", op), relOne(pre.root, target))
			fev := fsnotify.Event{Name: target, Op: fsnotify.Op(op)}
			abandon := make(chan struct{})
			go func() {
				select {
				case events2 <- fev:
					c.Note("event-consumed", "", "")
				case <-abandon:
				}
			}()
			for polls := 0; consumed == acked; polls++ {
				if polls > 15 {
					c.Violate("C20", "event-not-consumed", "second watcher on the same runner: the event (%s on %s) was not taken from the event channel within %d polls", fsnotify.Op(op), relOne(pre.root, target), polls)
					close(abandon)
					break
				}
				c.holdBatch = true
				c.Advance(time.Second)
				c.holdBatch = false
			}
			finishRuns(10 * time.Second)
			c.Quiesce()
			name, _ := subscribed(op)
			if consumed != acked && (len(execs) != before+1 || execs[len(execs)-1].Env["EventName"] != name || execs[len(execs)-1].Env["EventPath"] != target) {
				c.Violate("C20", "subscribed-event-not-served", "second watcher on the same runner (started after the first was closed): subscribed event %s on %s ran the task %d time(s)", name, relOne(pre.root, target), len(execs)-before)
			}
			c.Count("c20_second_watcher_events")
		}
		wt2.VerifSetEvents(orig2)
		go func() {
			wt2.Close()
			c.Note("watch2-closed", "", "")
		}()
		for i := 0; i < 10 && !run2Returned; i++ {
			c.Advance(time.Second)
		}
	}
	res.NonTrivial = len(w.History) > 0 && len(want) > 0
}

func relOne(root, p string) string {
	return strings.TrimPrefix(p, root+"/")
}

func relAll(root string, ps []string) []string {
	var out []string
	for _, p := range ps {
		out = append(out, relOne(root, p))
	}
	return out
}

// watchPre: everything that must be created outside the bubble (real tree, real fsnotify watcher,
// feeder goroutine).
type watchPre struct {
	w       *WatchWorld
	root    string
	watcher *watch.Watcher
	w2used  bool
	// inoFDs: descriptors of the inotify instance(s) behind the first watcher; baseWatches < 0: unknown
	inoFDs      []string
	baseWatches int
	watcher2    *watch.Watcher // same patterns and events, its own task, served by the same runner later on
	selected    []string
	err         error
	stop        chan struct{}
	oldwd       string
}

func prepareWatch(ch *Choices, job *Job, idx int) *watchPre {
	pre := &watchPre{stop: make(chan struct{})}
	pre.w = GenWatchWorld(ch, job.Tier == "thorough")
	pre.root = filepath.Join(scratchRoot(), fmt.Sprintf("watch%d", idx))
	os.RemoveAll(pre.root)
	for _, f := range pre.w.Files {
		p := filepath.Join(pre.root, f)
		if strings.HasSuffix(f, "/") {
			pre.err = os.MkdirAll(p, 0o755)
		} else {
			if err := os.MkdirAll(filepath.Dir(p), 0o755); err != nil {
				pre.err = err
			}
			pre.err = os.WriteFile(p, []byte("x"), 0o644)
		}
		if pre.err != nil {
			return pre
		}
	}
	if err := os.MkdirAll(pre.root, 0o755); err != nil {
		pre.err = err
		return pre
	}
	abs := func(ps []string) []string {
		var out []string
		for _, p := range ps {
			if pre.w.Relative {
				out = append(out, p)
			} else {
				out = append(out, pre.root+"/"+p)
			}
		}
		return out
	}
	if pre.w.Relative {
		pre.oldwd, _ = os.Getwd()
		if err := os.Chdir(pre.root); err != nil {
			pre.err = err
			return pre
		}
	}
	t := buildRealTask(&TaskSpec{Name: "wt", NCmd: 1, NAfter: pre.w.NAfter, TimeoutMS: pre.w.TimeoutMS})
	fdsBefore := inotifyFDs()
	pollersBefore := countPollers()
	wt, err := watch.NewWatcher("w", pre.w.Events, abs(pre.w.Include), abs(pre.w.Exclude), t)
	if err != nil {
		pre.err = err
		return pre
	}
	pre.watcher = wt
	// the inotify instance(s) behind this watcher: the descriptors that did not exist before
	pre.baseWatches = -1
	for fd := range inotifyFDs() {
		if !fdsBefore[fd] {
			pre.inoFDs = append(pre.inoFDs, fd)
			pre.baseWatches = 0
		}
	}
	// fsnotify's reader goroutine captures its channels in deferred calls when it starts: wait
	// until it sits in its poller before the event channel is substituted inside the bubble
	for i := 0; i < 4000 && countPollers() <= pollersBefore; i++ {
		time.Sleep(500 * time.Microsecond)
	}
	pre.selected = wt.VerifPaths()
	if ch.Bool(1, 3, "second-watcher") {
		pollersBefore = countPollers()
		t2 := buildRealTask(&TaskSpec{Name: "wt2", NCmd: 1})
		wt2, err := watch.NewWatcher("w2", pre.w.Events, abs(pre.w.Include), abs(pre.w.Exclude), t2)
		if err != nil {
			pre.err = err
			return pre
		}
		pre.watcher2 = wt2
		for i := 0; i < 4000 && countPollers() <= pollersBefore; i++ {
			time.Sleep(500 * time.Microsecond)
		}
	}
	return pre
}

func (pre *watchPre) cleanup() {
	if pre.oldwd != "" {
		os.Chdir(pre.oldwd)
	}
	close(pre.stop)
	if pre.watcher2 != nil && !pre.w2used {
		// never ran: Close would wait for a Run that does not exist; it releases the inotify
		// instance first
		go pre.watcher2.Close()
	}
	os.RemoveAll(pre.root)
}

// countPollers: number of goroutines currently blocked in fsnotify's inotify poller.
func countPollers() int {
	buf := make([]byte, 1<<20)
	n := runtime.Stack(buf, true)
	return strings.Count(string(buf[:n]), "fsnotify.(*fdPoller).wait")
}

func relKeys(root string, m map[string]int) []string {
	var out []string
	for k, n := range m {
		out = append(out, fmt.Sprintf("%s x%d", strings.Replace(k, root+"/", "", 1), n))
	}
	sort.Strings(out)
	return out
}

func minInt(a, b int) int {
	if a < b {
		return a
	}
	return b
}

func anyTrue(bs []bool) bool {
	for _, b := range bs {
		if b {
			return true
		}
	}
	return false
}

// inotifyFDs: the descriptors of this process that are inotify instances.
func inotifyFDs() map[string]bool {
	out := map[string]bool{}
	ents, err := os.ReadDir("/proc/self/fd")
	if err != nil {
		return out
	}
	for _, e := range ents {
		if link, err := os.Readlink("/proc/self/fd/" + e.Name()); err == nil && link == "anon_inode:inotify" {
			out[e.Name()] = true
		}
	}
	return out
}

// inotifyWatches: number of watches held by the given inotify descriptors (from /proc/self/fdinfo).
func inotifyWatches(fds []string) int {
	n := 0
	for _, fd := range fds {
		data, err := os.ReadFile("/proc/self/fdinfo/" + fd)
		if err != nil {
			return -1
		}
		n += strings.Count(string(data), "inotify wd:")
	}
	return n
}

package verifsim

// Profiles of the SCHED engine. A global run index selects (world, schedule):
// worlds are re-run under several schedules (C02's timing-independence) and,
// for the cancellation enumeration, under every Cancel position.

const schedPerWorld = 4
const cancelPositions = 16

// systematic enumeration of every DAG shape on 1..4 stages: (n, edge mask)
var dagShapes = func() [][2]int {
	var out [][2]int
	for n := 1; n <= 4; n++ {
		pairs := n * (n - 1) / 2
		for m := 0; m < 1<<uint(pairs); m++ {
			out = append(out, [2]int{n, m})
		}
	}
	return out
}()

func runSchedJob(c *Ctl, job *Job, idx int, res *RunResult) {
	thorough := job.Tier == "thorough"
	prof := &SchedProfile{
		StepCap:  300,
		WRelease: 10, WAdvance: 8, WBarrier: 2, WMidpass: 3,
		CancelAt: -1,
	}
	gen := SchedGenParams{MaxStages: 5, NestProb: 25, SharedNestProb: 35, FailProb: 30, AllowProb: 35, CondProb: 30, MaxDepth: 1, InteractivePct: 12}
	if thorough {
		gen.MaxStages = 8
		gen.MaxDepth = 2
		gen.NestProb = 35
	}
	world := idx / schedPerWorld
	sched := idx
	switch job.Profile {
	case "c01", "c02", "c03", "c04":
	case "c03f", "c12s":
	default:
		res.HarnessErr = "unknown sched profile " + job.Profile
		return
	}
	if job.Profile == "c04" {
		prof.AlwaysBar = true
		prof.WAdvance = 3
		prof.WBarrier = 0
	}
	if job.Profile == "c03f" {
		// cancelled runs: Cancel from outside at a weighted-random step, a second Cancel,
		// Cancel after the run, and stage-condition errors
		prof.Faults = 2
		prof.WFault = 4
		prof.CancelAfter = true
		gen.MissingProb = 35
	}
	if job.Profile == "c12s" {
		world = idx / cancelPositions
		sched = world
		prof.Faults = 2
		prof.WFault = 3 // second cancel: weighted
		prof.CancelAt = idx % cancelPositions
		prof.CancelAfter = true
		gen.MissingProb = 10
	}
	// the first worlds enumerate every DAG shape on up to 4 stages
	if world < len(dagShapes)*2 {
		sh := dagShapes[world%len(dagShapes)]
		gen.SystematicN, gen.EdgeMask = sh[0], sh[1]
		if world < len(dagShapes) {
			gen.NestProb = 0
		}
		c.Counters["systematic_shape"] = world%len(dagShapes) + 1
	}
	shape := ""
	if world >= len(dagShapes)*2 {
		switch world % 16 {
		case 5:
			shape = "wide-nested"
			prof.PreemptPct, prof.PreemptDepth = 40, 12 // several nested loops: hold some in the middle of a pass
		case 3:
			// plain worlds: no conditions, no nesting - one polling loop, whose passes can then be
			// suspended between two statements of a visit deterministically
			gen.CondProb, gen.NestProb = 0, 0
			shape = "plain"
		case 11:
			// one pipeline nested by two stages, failures inside it likely: the second nesting stage
			// often starts when the nested pipeline has already been run by the first
			gen.NestProb, gen.SharedNestProb, gen.FailProb = 100, 100, 45
			c.Count("shared_nested_worlds")
		}
	}
	if world%3 == 1 {
		// a third of the worlds: a stage goroutine whose task just returned may be held before one
		// of its next statements while scheduling passes go on (e.g. between its two status stores)
		prof.PreemptPct, prof.PreemptDepth = 25, 12
		prof.WMidpass = 9 // more passes suspended in the middle (and a few statements into a visit)
	}
	if shape == "plain" {
		prof.PreemptPct, prof.PreemptDepth = 40, 12
		prof.WMidpass = 12
		c.Count("plain_single_loop_worlds")
	}
	if world >= len(dagShapes)*2 && world%16 == 11 {
		// one pipeline scheduled by two loops: what one loop sees of a stage that is just finishing
		// in the other is the interesting part
		prof.PreemptPct, prof.PreemptDepth = 60, 8
	}
	prof.Gen = gen
	if !c.Ch.replaying {
		c.Ch.Reseed(seedFor(job.Base^0x5eed0001, world))
	}
	var g *GraphSpec
	if shape == "wide-nested" {
		g = GenWideNested(c.Ch, gen)
		c.Count("wide_nested_worlds")
	} else {
		g = GenGraph(c.Ch, gen, "", 0)
	}
	if !c.Ch.replaying {
		c.Ch.Reseed(seedFor(job.Base^0x5eed0002, sched))
	}
	res.Sample = map[string]interface{}{"world": g.String(), "world_index": world}
	res.WorldIdx = world
	RunSchedWorld(c, prof, g, res)
}

// GenWideNested: many stages that each nest a pipeline of their own, mostly independent of each
// other, so that 8..12 nested pipelines are in flight together (plus a few plain stages).
func GenWideNested(ch *Choices, p SchedGenParams) *GraphSpec {
	g := &GraphSpec{Name: "root"}
	n := ch.Range(8, 12, "n-nesting")
	inner := p
	inner.MaxDepth = 0
	for i := 0; i < n; i++ {
		s := &StageSpec{Name: string(rune('a' + i))}
		if i > 0 && ch.Bool(1, 8, "edge") {
			s.Deps = []string{g.Stages[ch.Choose(i, "dep")].Name}
		}
		if ch.Bool(1, 6, "plain") {
			s.Fail = ch.Bool(p.FailProb, 100, "fail")
			s.Allow = ch.Bool(p.AllowProb, 100, "allow")
		} else {
			s.Nested = GenGraph(ch, inner, s.Name+".", 1)
			s.Allow = ch.Bool(p.AllowProb, 100, "allow")
		}
		g.Stages = append(g.Stages, s)
	}
	return g
}

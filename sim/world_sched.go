package verifsim

import (
	"fmt"
	"sort"
)

// ---- world description for scheduler-level runs (pure data, no taskctl imports) ----

type StageSpec struct {
	Name   string     `json:"name"`
	Deps   []string   `json:"deps,omitempty"`
	Fail   bool       `json:"fail,omitempty"`
	Allow  bool       `json:"allow,omitempty"`
	Cond   string     `json:"cond,omitempty"` // "", "true", "false", "missing"
	Nested *GraphSpec `json:"nested,omitempty"`
	Task   string     `json:"task,omitempty"` // INTEG: name of the task this stage runs (default: the stage's own name)
	// Interactive: the stage's task is declared interactive (SCHED: a flag on the stub's task)
	Interactive bool `json:"interactive,omitempty"`
	// Real: the name the stage carries in the pipeline handed to taskctl (default: Name). Names
	// are unique per pipeline only: a nested pipeline may well reuse the stage names of the
	// pipeline that nests it. Name stays unique across the world (oracle bookkeeping).
	Real string `json:"real,omitempty"`
	// INTEG/C08: per-stage overrides
	Env  map[string]string `json:"env,omitempty"`
	Vars map[string]string `json:"vars,omitempty"`
	Dir  string            `json:"dir,omitempty"`
}

type GraphSpec struct {
	Name   string       `json:"name"`
	Stages []*StageSpec `json:"stages"` // declaration order
}

func (s *StageSpec) RealName() string {
	if s.Real != "" {
		return s.Real
	}
	return s.Name
}

// RealDeps: the dependencies by the names they carry in the real pipeline.
func (g *GraphSpec) RealDeps(s *StageSpec) []string {
	var out []string
	for _, d := range s.Deps {
		if ds := g.Stage(d); ds != nil {
			out = append(out, ds.RealName())
		} else {
			out = append(out, d)
		}
	}
	return out
}

func (g *GraphSpec) Stage(name string) *StageSpec {
	for _, s := range g.Stages {
		if s.Name == name {
			return s
		}
	}
	return nil
}

// AllLeaves lists every non-nested stage, recursively.
func (g *GraphSpec) AllLeaves() []*StageSpec {
	return g.allLeaves(map[*GraphSpec]bool{})
}

func (g *GraphSpec) allLeaves(seen map[*GraphSpec]bool) []*StageSpec {
	var out []*StageSpec
	if seen[g] {
		return nil // a pipeline nested by several stages is listed once
	}
	seen[g] = true
	for _, s := range g.Stages {
		if s.Nested != nil {
			out = append(out, s.Nested.allLeaves(seen)...)
		} else {
			out = append(out, s)
		}
	}
	return out
}

func (g *GraphSpec) CountStages() int {
	n := 0
	for _, s := range g.Stages {
		n++
		if s.Nested != nil {
			n += s.Nested.CountStages()
		}
	}
	return n
}

func (g *GraphSpec) HasMissingCond() bool {
	for _, s := range g.Stages {
		if s.Cond == "missing" {
			return true
		}
		if s.Nested != nil && s.Nested.HasMissingCond() {
			return true
		}
	}
	return false
}

func (g *GraphSpec) String() string {
	out := g.Name + "{"
	for i, s := range g.Stages {
		if i > 0 {
			out += " "
		}
		out += s.Name
		if len(s.Deps) > 0 {
			out += "<-" + fmt.Sprint(s.Deps)
		}
		if s.Fail {
			out += "!"
		}
		if s.Allow {
			out += "~"
		}
		if s.Cond != "" {
			out += "?" + s.Cond
		}
		if s.Nested != nil {
			out += "=" + s.Nested.String()
		}
	}
	return out + "}"
}

type SchedGenParams struct {
	MaxStages      int
	SystematicN    int // >0: n is fixed and EdgeMask gives the edge set
	EdgeMask       int
	NestProb       int // out of 100
	SharedNestProb int // out of 100, given a nested pipeline: a second stage nests the same pipeline
	MissingProb    int // out of 100, per world
	FailProb       int
	AllowProb      int
	CondProb       int
	MaxDepth       int
	// NoTrueCondWithDeps: a stage that waits for dependencies never gets a `true` condition.
	// (The scheduler re-evaluates the condition of every waiting stage on every pass, by forking
	// the program; engines that let much simulated time pass would fork thousands of times.)
	NoTrueCondWithDeps bool
	// InteractivePct: percent of the stages whose task is interactive (scheduling must not care)
	InteractivePct int
}

// GenGraph draws a DAG. Stages get a hidden topological index; edges only go
// from lower to higher index, so the graph is acyclic by construction; the
// declaration order is a separate permutation.
func GenGraph(ch *Choices, p SchedGenParams, prefix string, depth int) *GraphSpec {
	g := &GraphSpec{Name: prefix}
	if g.Name == "" {
		g.Name = "root"
	}
	n := p.SystematicN
	if n <= 0 || depth > 0 {
		max := p.MaxStages
		if depth > 0 && max > 3 {
			max = 3
		}
		n = ch.Range(1, max, "n-stages")
	}
	names := make([]string, n)
	for i := 0; i < n; i++ {
		names[i] = prefix + string(rune('a'+i))
	}
	specs := make([]*StageSpec, n)
	bit := 0
	// a nested pipeline may name its stages like the pipeline around it does
	reuse := depth > 0 && ch.Bool(1, 3, "reuse-outer-stage-names")
	for j := 0; j < n; j++ {
		s := &StageSpec{Name: names[j]}
		if reuse {
			s.Real = string(rune('a' + j))
		}
		for i := 0; i < j; i++ {
			var has bool
			if p.SystematicN > 0 && depth == 0 {
				has = p.EdgeMask&(1<<uint(bit)) != 0
				bit++
			} else {
				has = ch.Bool(2, 5, "edge")
			}
			if has {
				s.Deps = append(s.Deps, names[i])
			}
		}
		s.Fail = ch.Bool(p.FailProb, 100, "fail")
		if ch.Bool(p.AllowProb, 100, "allow") {
			s.Allow = true
		}
		if p.InteractivePct > 0 && ch.Bool(p.InteractivePct, 100, "interactive") {
			s.Interactive = true
		}
		if ch.Bool(p.CondProb, 100, "has-cond") {
			if ch.Bool(2, 3, "cond-false") || (p.NoTrueCondWithDeps && len(s.Deps) > 0) {
				s.Cond = "false"
			} else {
				s.Cond = "true"
			}
		}
		specs[j] = s
	}
	if depth < p.MaxDepth && ch.Bool(p.NestProb, 100, "nest") {
		k := ch.Choose(n, "nest-which")
		specs[k].Nested = GenGraph(ch, p, specs[k].Name+".", depth+1)
		specs[k].Fail = false
		if n >= 2 && ch.Bool(p.SharedNestProb, 100, "shared-nested") {
			// a second stage nests the very same pipeline
			j := ch.Choose(n-1, "shared-which")
			if j >= k {
				j++
			}
			specs[j].Nested = specs[k].Nested
			specs[j].Fail = false
		}
	}
	if depth == 0 && ch.Bool(p.MissingProb, 100, "missing-cond") {
		leaves := (&GraphSpec{Stages: specs}).AllLeaves()
		k := ch.Choose(len(leaves), "missing-which")
		leaves[k].Cond = "missing"
	}
	// declaration order: identity (topological) half of the time
	if ch.Bool(1, 2, "shuffle-decl") {
		perm := ch.Perm(n, "decl-perm")
		for _, i := range perm {
			g.Stages = append(g.Stages, specs[i])
		}
	} else {
		g.Stages = specs
	}
	// dependency list order is also declaration-level freedom
	for _, s := range g.Stages {
		if len(s.Deps) > 1 && ch.Bool(1, 3, "rev-deps") {
			sort.Sort(sort.Reverse(sort.StringSlice(s.Deps)))
		}
	}
	return g
}

// ---- reference model: status propagation on a DAG (pure) ----

const (
	MWaiting  = "waiting"
	MSkipped  = "skipped"
	MDone     = "done"
	MError    = "error"
	MCanceled = "canceled"
)

type DagResult struct {
	Status map[string]string // by stage name (all levels; names are globally unique)
	Ran    map[string]bool   // leaf stages whose task is executed
	Err    map[string]bool   // graph name -> Schedule returns an error
	// Ambiguous: some stage with a false condition has an unsatisfied dependency; the
	// statement's two clauses ("skipped blocks nothing" / "exactly the transitive
	// dependants are cancelled") then disagree; Alt holds the other reading.
	Ambiguous bool
}

func topoOrder(g *GraphSpec) []*StageSpec {
	done := map[string]bool{}
	var out []*StageSpec
	for len(out) < len(g.Stages) {
		progress := false
		for _, s := range g.Stages {
			if done[s.Name] {
				continue
			}
			ok := true
			for _, d := range s.Deps {
				if !done[d] {
					ok = false
				}
			}
			if ok {
				done[s.Name] = true
				out = append(out, s)
				progress = true
			}
		}
		if !progress {
			panic("verifsim: generated graph is cyclic")
		}
	}
	return out
}

// EvalDag computes the final status of every stage. strictTransitive selects
// the alternative reading for a condition-false stage below a failure.
func EvalDag(g *GraphSpec, strictTransitive bool) *DagResult {
	r := &DagResult{Status: map[string]string{}, Ran: map[string]bool{}, Err: map[string]bool{}}
	evalDagInto(g, strictTransitive, r)
	return r
}

func evalDagInto(g *GraphSpec, strict bool, r *DagResult) {
	// blocked[s]: s or something it transitively depends on failed without allowance
	blocked := map[string]bool{}
	gerr := false
	for _, s := range topoOrder(g) {
		depBlocked := false
		depCancel := false
		for _, d := range s.Deps {
			ds := g.Stage(d)
			st := r.Status[d]
			if st == MCanceled || (st == MError && !ds.Allow) {
				depCancel = true
			}
			if blocked[d] {
				depBlocked = true
			}
		}
		switch {
		case s.Cond == "false":
			r.Status[s.Name] = MSkipped
			if depBlocked {
				r.Ambiguous = true
				blocked[s.Name] = true
				if strict {
					r.Status[s.Name] = MSkipped
				}
			}
		case depCancel || (strict && depBlocked):
			r.Status[s.Name] = MCanceled
			blocked[s.Name] = true
		default:
			failed := false
			if s.Nested != nil {
				evalDagInto(s.Nested, strict, r)
				failed = r.Err[s.Nested.Name]
			} else {
				r.Ran[s.Name] = true
				failed = s.Fail
			}
			if failed {
				if s.Allow {
					r.Status[s.Name] = MDone
				} else {
					r.Status[s.Name] = MError
					gerr = true
					blocked[s.Name] = true
				}
			} else {
				r.Status[s.Name] = MDone
			}
		}
	}
	r.Err[g.Name] = gerr
}

// Package vsync provides drop-in replacements for sync.Mutex, sync.RWMutex and sync.Once whose
// waiters block on channels. In a testing/synctest bubble a goroutine blocked on a sync.Mutex is
// not "durably blocked": the fake clock stops and synctest.Wait never returns, so a lock that is
// held across a simulated command would freeze the whole simulation. bin/build.sh rewrites
// `sync.Mutex|RWMutex|Once` to these types in the copies of taskctl's own source files it
// overlays into the simulated build (the files in /repo are not touched). Semantics are those of
// the originals (mutual exclusion, shared readers / exclusive writer, once-only with late callers
// waiting for the first to finish); fairness and performance are not reproduced.
package vsync

import "sync"

// Mutex is a channel-based mutual exclusion lock; the zero value is unlocked.
type Mutex struct {
	g       sync.Mutex // guards the fields below; never held while blocking
	locked  bool
	waiters []chan struct{}
}

func (m *Mutex) Lock() {
	for {
		m.g.Lock()
		if !m.locked {
			m.locked = true
			m.g.Unlock()
			return
		}
		w := make(chan struct{})
		m.waiters = append(m.waiters, w)
		m.g.Unlock()
		<-w
	}
}

func (m *Mutex) Unlock() {
	m.g.Lock()
	if !m.locked {
		m.g.Unlock()
		panic("vsync: unlock of unlocked mutex")
	}
	m.locked = false
	ws := m.waiters
	m.waiters = nil
	m.g.Unlock()
	for _, w := range ws {
		close(w)
	}
}

// RWMutex is a channel-based reader/writer lock; the zero value is unlocked.
type RWMutex struct {
	g       sync.Mutex
	readers int
	writer  bool
	waiters []chan struct{}
}

func (m *RWMutex) wait() {
	w := make(chan struct{})
	m.waiters = append(m.waiters, w)
	m.g.Unlock()
	<-w
}

func (m *RWMutex) wake() {
	ws := m.waiters
	m.waiters = nil
	m.g.Unlock()
	for _, w := range ws {
		close(w)
	}
}

func (m *RWMutex) Lock() {
	for {
		m.g.Lock()
		if !m.writer && m.readers == 0 {
			m.writer = true
			m.g.Unlock()
			return
		}
		m.wait()
	}
}

func (m *RWMutex) Unlock() {
	m.g.Lock()
	if !m.writer {
		m.g.Unlock()
		panic("vsync: Unlock of unlocked RWMutex")
	}
	m.writer = false
	m.wake()
}

func (m *RWMutex) RLock() {
	for {
		m.g.Lock()
		if !m.writer {
			m.readers++
			m.g.Unlock()
			return
		}
		m.wait()
	}
}

func (m *RWMutex) RUnlock() {
	m.g.Lock()
	if m.readers <= 0 {
		m.g.Unlock()
		panic("vsync: RUnlock of unlocked RWMutex")
	}
	m.readers--
	m.wake()
}

// RLocker returns a Locker whose Lock/Unlock call RLock/RUnlock.
func (m *RWMutex) RLocker() sync.Locker { return (*rlocker)(m) }

type rlocker RWMutex

func (r *rlocker) Lock()   { (*RWMutex)(r).RLock() }
func (r *rlocker) Unlock() { (*RWMutex)(r).RUnlock() }

// Once performs exactly one action; callers that arrive while it runs wait until it has finished.
type Once struct {
	m    Mutex
	done bool
}

func (o *Once) Do(f func()) {
	o.m.Lock()
	defer o.m.Unlock()
	if !o.done {
		defer func() { o.done = true }()
		f()
	}
}

// Package vsync provides drop-in replacements for sync.Mutex, sync.RWMutex and sync.Once whose
// waiters block on channels. In a testing/synctest bubble a goroutine blocked on a sync.Mutex is
// not "durably blocked": the fake clock stops and synctest.Wait never returns, so a lock that is
// held across a simulated command would freeze the whole simulation. bin/build.sh rewrites
// `sync.Mutex|RWMutex|Once` to these types in the copies of taskctl's own source files it
// overlays into the simulated build (the files in /repo are not touched). Semantics are those of
// the originals (mutual exclusion, shared readers / exclusive writer, once-only with late callers
// waiting for the first to finish); fairness and performance are not reproduced.
package vsync

import (
	"runtime"
	"sync"
	"sync/atomic"
)

// Mutex is a channel-based mutual exclusion lock; the zero value is unlocked.
type Mutex struct {
	g       sync.Mutex // guards the fields below; never held while blocking
	locked  bool
	waiters []chan struct{}
}

func (m *Mutex) Lock() {
	for {
		m.g.Lock()
		if !m.locked {
			m.locked = true
			m.g.Unlock()
			return
		}
		w := make(chan struct{})
		m.waiters = append(m.waiters, w)
		m.g.Unlock()
		<-w
	}
}

func (m *Mutex) Unlock() {
	m.g.Lock()
	if !m.locked {
		m.g.Unlock()
		panic("vsync: unlock of unlocked mutex")
	}
	m.locked = false
	ws := m.waiters
	m.waiters = nil
	m.g.Unlock()
	for _, w := range ws {
		close(w)
	}
}

// RWMutex is a channel-based reader/writer lock; the zero value is unlocked.
type RWMutex struct {
	g       sync.Mutex
	readers int
	writer  bool
	waiters []chan struct{}
}

func (m *RWMutex) wait() {
	w := make(chan struct{})
	m.waiters = append(m.waiters, w)
	m.g.Unlock()
	<-w
}

func (m *RWMutex) wake() {
	ws := m.waiters
	m.waiters = nil
	m.g.Unlock()
	for _, w := range ws {
		close(w)
	}
}

func (m *RWMutex) Lock() {
	for {
		m.g.Lock()
		if !m.writer && m.readers == 0 {
			m.writer = true
			m.g.Unlock()
			return
		}
		m.wait()
	}
}

func (m *RWMutex) Unlock() {
	m.g.Lock()
	if !m.writer {
		m.g.Unlock()
		panic("vsync: Unlock of unlocked RWMutex")
	}
	m.writer = false
	m.wake()
}

func (m *RWMutex) RLock() {
	for {
		m.g.Lock()
		if !m.writer {
			m.readers++
			m.g.Unlock()
			return
		}
		m.wait()
	}
}

func (m *RWMutex) RUnlock() {
	m.g.Lock()
	if m.readers <= 0 {
		m.g.Unlock()
		panic("vsync: RUnlock of unlocked RWMutex")
	}
	m.readers--
	m.wake()
}

// RLocker returns a Locker whose Lock/Unlock call RLock/RUnlock.
func (m *RWMutex) RLocker() sync.Locker { return (*rlocker)(m) }

type rlocker RWMutex

func (r *rlocker) Lock()   { (*RWMutex)(r).RLock() }
func (r *rlocker) Unlock() { (*RWMutex)(r).RUnlock() }

// Once performs exactly one action; callers that arrive while it runs wait until it has finished.
type Once struct {
	m    Mutex
	done bool
}

func (o *Once) Do(f func()) {
	o.m.Lock()
	defer o.m.Unlock()
	if !o.done {
		defer func() { o.done = true }()
		f()
	}
}

// ---- cooperative preemption points ----
//
// bin/build.sh also inserts `vsync.Preempt("<pkg>.<Func>")` as the first statement of every
// top-level function and method of taskctl's own packages (in the overlay copies only). The call
// costs one atomic load unless the simulator has armed a countdown: the goroutine that makes the
// n-th call after arming is handed to the simulator, which parks it like at any other park point.
// That gives interleavings at function-call granularity inside taskctl's code (PCT-style), not
// only at the places where the program blocks by itself.

var preemptArmed int32 // >0: countdown of Preempt calls (of the armed goroutine) until the hook is invoked
var armedGID int64     // only calls made by this goroutine count

// PreemptHook is set by the simulator for the duration of a run.
var PreemptHook atomic.Value // func(name string)

// Arm makes the n-th Preempt call that goroutine gid makes from now invoke the hook (n <= 0
// disarms). Counting one goroutine's own calls keeps the preemption point independent of how the
// runtime orders other goroutines that happen to be runnable at the same instant.
func Arm(n int, gid int64) {
	if n < 0 {
		n = 0
	}
	atomic.StoreInt64(&armedGID, gid)
	atomic.StoreInt32(&preemptArmed, int32(n))
}

// Armed reports the remaining countdown.
func Armed() int { return int(atomic.LoadInt32(&preemptArmed)) }

func Preempt(name string) {
	if atomic.LoadInt32(&preemptArmed) == 0 {
		return
	}
	if GID() != atomic.LoadInt64(&armedGID) {
		return
	}
	if atomic.AddInt32(&preemptArmed, -1) != 0 {
		return
	}
	if f, _ := PreemptHook.Load().(func(string)); f != nil {
		f(name)
	}
}

// ---- named wait points (cmd/taskctl's cancel listeners) ----

// PointHook is set by the simulator for the duration of a run.
var PointHook atomic.Value // func(id string)

var (
	pointMu  sync.Mutex
	pointOcc = map[string]int{}
)

// ResetPoints forgets the occurrence counters (start of a run).
func ResetPoints() {
	pointMu.Lock()
	pointOcc = map[string]int{}
	pointMu.Unlock()
}

// WaitPoint replaces `<-ch` in goroutines that wait for a signal and then act on it: the
// goroutine gets its identity when it starts waiting (creation order, which is sequential), and
// once the signal arrived it yields to the simulator before acting. Without a hook it is `<-ch`.
func WaitPoint(ch <-chan struct{}, name string) {
	pointMu.Lock()
	pointOcc[name]++
	id := name + "#" + itoa(pointOcc[name])
	pointMu.Unlock()
	<-ch
	if f, _ := PointHook.Load().(func(string)); f != nil {
		f(id)
	}
}

func itoa(n int) string {
	if n == 0 {
		return "0"
	}
	var b [20]byte
	i := len(b)
	for n > 0 {
		i--
		b[i] = byte('0' + n%10)
		n /= 10
	}
	return string(b[i:])
}

// ---- sync.Map.Range in a seeded order ----

// RangeSeed is set by the simulator for the duration of a run (0: sorted by key).
var RangeSeed uint64

// RangeSorted replaces m.Range(f) where the order of the calls is visible from outside (taking
// execution contexts down at Finish): the entries are visited in an order that is a function of
// the keys and of one seeded value instead of the runtime's.
func RangeSorted(m *sync.Map, f func(key, value interface{}) bool) {
	type kv struct {
		k    interface{}
		v    interface{}
		name string
	}
	var all []kv
	m.Range(func(k, v interface{}) bool {
		name, _ := k.(string)
		all = append(all, kv{k, v, name})
		return true
	})
	for i := 1; i < len(all); i++ { // insertion sort by name
		for j := i; j > 0 && all[j].name < all[j-1].name; j-- {
			all[j], all[j-1] = all[j-1], all[j]
		}
	}
	if seed := atomic.LoadUint64(&RangeSeed); seed != 0 {
		h := seed
		for i := len(all) - 1; i > 0; i-- {
			h ^= h >> 29
			h *= 0x94D049BB133111EB
			h ^= h >> 32
			j := int(h % uint64(i+1))
			all[i], all[j] = all[j], all[i]
		}
	}
	for _, e := range all {
		if !f(e.k, e.v) {
			return
		}
	}
}

// ---- statement-level preemption points (inserted by tools/stmtpoints) ----

var stmtArmed int32
var stmtGID int64

// ArmStmt: like Arm, counted in statements instead of function entries.
func ArmStmt(n int, gid int64) {
	if n < 0 {
		n = 0
	}
	atomic.StoreInt64(&stmtGID, gid)
	atomic.StoreInt32(&stmtArmed, int32(n))
}

func ArmedStmt() int { return int(atomic.LoadInt32(&stmtArmed)) }

func PreemptStmt(name string) {
	if atomic.LoadInt32(&stmtArmed) == 0 {
		return
	}
	if GID() != atomic.LoadInt64(&stmtGID) {
		return
	}
	if atomic.AddInt32(&stmtArmed, -1) != 0 {
		return
	}
	if f, _ := PreemptHook.Load().(func(string)); f != nil {
		f(name)
	}
}

// GID returns the id of the calling goroutine (parsed from its stack header).
func GID() int64 {
	var buf [64]byte
	n := runtime.Stack(buf[:], false)
	var id int64
	for i := len("goroutine "); i < n; i++ {
		ch := buf[i]
		if ch < '0' || ch > '9' {
			break
		}
		id = id*10 + int64(ch-'0')
	}
	return id
}

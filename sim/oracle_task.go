package verifsim

import (
	"bytes"

	"github.com/taskctl/taskctl/pkg/task"

	"fmt"
	"sort"
	"strings"
)

// Oracles over the exec history of INTEG runs: C06 (sequencing), C07 (reported
// status), C11 (captured output and hand-over to dependants).

func (e *integEngine) stageTask(s *StageSpec) string {
	if s.Task != "" {
		return s.Task
	}
	return s.Name
}

// expectations: which tasks run, and how, in a fault-free (no cancel, no timeout) world.
type integExpect struct {
	task    map[string]*TaskExpect
	runs    map[string]bool // task name -> expected to be executed
	dag     *DagResult
	dagAlt  *DagResult
	schedEr bool
}

func (e *integEngine) computeExpect() *integExpect {
	x := &integExpect{task: map[string]*TaskExpect{}, runs: map[string]bool{}}
	for _, t := range e.w.Tasks {
		x.task[t.Name] = ModelTask(e.w, t)
	}
	for _, d := range e.w.Drivers {
		if d.Kind == "task" {
			x.runs[d.Target] = true
		}
	}
	if e.w.Graph != nil {
		var setFail func(g *GraphSpec)
		setFail = func(g *GraphSpec) {
			for _, s := range g.Stages {
				if s.Nested != nil {
					setFail(s.Nested)
					continue
				}
				s.Fail = x.task[e.stageTask(s)].Failed
			}
		}
		setFail(e.w.Graph)
		x.dag = EvalDag(e.w.Graph, false)
		x.dagAlt = EvalDag(e.w.Graph, true)
		for _, l := range e.w.Graph.AllLeaves() {
			if x.dag.Ran[l.Name] {
				x.runs[e.stageTask(l)] = true
			}
		}
	}
	return x
}

func (e *integEngine) execsOf(owner string) []*execRec {
	var out []*execRec
	for _, r := range e.execs {
		if r.Info.Owner == owner {
			out = append(out, r)
		}
	}
	return out
}

func idsOf(rs []*execRec) []string {
	var out []string
	for _, r := range rs {
		out = append(out, r.Info.ID)
	}
	return out
}

// checkC06 compares each task's exec history with the sequencing model.
func (e *integEngine) checkC06(x *integExpect) {
	c := e.c
	for _, t := range e.w.Tasks {
		rs := e.execsOf(t.Name)
		got := idsOf(rs)
		if !x.runs[t.Name] {
			if x.dag != nil && x.dag.Ambiguous {
				continue
			}
			if len(got) > 0 {
				c.Violate("C06", "ran-unexpectedly", "task %s was not expected to run but executed %v", t.Name, got)
				if e.w.Graph != nil {
					c.Violate("C02", "ran-unexpectedly-real-runner", "stage task %s must not run (a dependency failed / was cancelled) but executed %v", t.Name, got)
					c.Violate("C01", "start-after-failed-dep-real-runner", "stage task %s started (%v) although a stage it depends on has not finished in any of the ways that let dependants go on (it failed without allow_failure, or was cancelled)", t.Name, got)
				}
			}
			continue
		}
		want := x.task[t.Name]
		ok := true
		min := len(want.Seq)
		if want.OptionalFrom >= 0 {
			min = want.OptionalFrom
		}
		if len(got) < min || len(got) > len(want.Seq) {
			ok = false
		} else {
			for i := range got {
				if got[i] != want.Seq[i] {
					ok = false
				}
			}
		}
		if !ok {
			c.Violate("C06", "sequence", "task %s executed %v, model expects %v (optional from index %d)", t.Name, got, want.Seq, want.OptionalFrom)
		}
		// one at a time: exec k+1 starts after exec k ended
		for i := 1; i < len(rs); i++ {
			if rs[i-1].EndSeq < 0 || rs[i].StartSeq < rs[i-1].EndSeq {
				c.Violate("C06", "overlap", "task %s: %s started (seq %d) before %s ended (seq %d)", t.Name, rs[i].Info.ID, rs[i].StartSeq, rs[i-1].Info.ID, rs[i-1].EndSeq)
			}
		}
		rt := e.resultTask(t.Name)
		if rt != nil && rt.Skipped != want.Skipped {
			c.Violate("C06", "skipped-flag", "task %s: Skipped=%v, model %v", t.Name, rt.Skipped, want.Skipped)
		}
		if len(got) >= 2 {
			c.Count("c06_tasks_multi_exec")
		}
		if want.CmdFailed {
			c.Count("c06_tasks_cut_short")
		}
	}
}

// checkC07 compares the reported result of each task and stage with the model.
func (e *integEngine) checkC07(x *integExpect) {
	c := e.c
	for _, t := range e.w.Tasks {
		if !x.runs[t.Name] {
			continue
		}
		want := x.task[t.Name]
		rt := e.resultTask(t.Name)
		switch {
		case want.Skipped:
			if !rt.Skipped || rt.Errored {
				c.Violate("C07", "skipped-result", "task %s has a false condition: Skipped=%v Errored=%v, want Skipped=true Errored=false", t.Name, rt.Skipped, rt.Errored)
			}
			c.Count("c07_skipped_tasks")
		case want.CmdFailed:
			if !rt.Errored || int(rt.ExitCode) != want.ExitCode {
				c.Violate("C07", "failed-result", "task %s: command failed with status %d without allow_failure: Errored=%v ExitCode=%d", t.Name, want.ExitCode, rt.Errored, rt.ExitCode)
			}
			c.Counters["c07_failed_exit_codes_seen"]++
		case want.Failed:
			// failing before-hook: the run must report an error (checked at the driver / stage level)
		default:
			if rt.Errored || rt.ExitCode != 0 || rt.Skipped {
				c.Violate("C07", "success-result", "task %s succeeded (or only had allowed failures): Errored=%v ExitCode=%d Skipped=%v, want false/0/false", t.Name, rt.Errored, rt.ExitCode, rt.Skipped)
			}
			if t.Allow {
				c.Count("c07_allowed_failure_tasks")
			}
		}
	}
	for _, d := range e.drivers {
		if d.Spec.Kind == "task" && d.Returned {
			want := x.task[d.Spec.Target]
			if (d.Err != nil) != want.Failed {
				c.Violate("C07", "run-error", "Run(%s) returned %s, model failed=%v", d.Spec.Target, errString(d.Err), want.Failed)
			}
		}
		if d.Spec.Kind == "pipeline" && d.Returned && x.dag != nil {
			wantErr := x.dag.Err[e.w.Graph.Name]
			if x.dag.Ambiguous && x.dagAlt.Err[e.w.Graph.Name] != wantErr {
				continue
			}
			if (d.Err != nil) != wantErr {
				c.Violate("C07", "schedule-error", "Schedule returned %s, model error=%v", errString(d.Err), wantErr)
				c.Violate("C02", "schedule-error-real-runner", "Schedule returned %s, model error=%v (real TaskRunner)", errString(d.Err), wantErr)
			}
		}
	}
	if x.dag != nil && !x.dag.Ambiguous {
		var names []string
		for n := range e.stages {
			names = append(names, n)
		}
		sort.Strings(names)
		for _, n := range names {
			want := x.dag.Status[n]
			if want == "" {
				want = MWaiting
			}
			got := statusName(e.stages[n].ReadStatus())
			if got != want {
				c.Violate("C07", "stage-status", "stage %s: status %s, model %s", n, got, want)
				c.Violate("C02", "stage-status-real-runner", "stage %s: status %s, model %s (real TaskRunner, world %s)", n, got, want, e.w.Graph.String())
			}
		}
	}
}

func mangleOutputName(task string) string {
	up := strings.ToUpper(task)
	var b strings.Builder
	for i := 0; i < len(up); i++ {
		ch := up[i]
		if (ch >= 'A' && ch <= 'Z') || (ch >= 'a' && ch <= 'z') || (ch >= '0' && ch <= '9') || ch == '_' {
			b.WriteByte(ch)
		} else {
			b.WriteByte('_')
		}
	}
	return b.String() + "_OUTPUT"
}

// checkC11: captured output is byte-exact and every direct dependant's
// commands see it under <NAME>_OUTPUT / exportAs.
func (e *integEngine) checkC11(x *integExpect) {
	c := e.c
	for _, t := range e.w.Tasks {
		if !x.runs[t.Name] {
			continue
		}
		want := x.task[t.Name]
		if !want.Complete {
			continue
		}
		rt := e.resultTask(t.Name)
		if !bytes.Equal([]byte(rt.Output()), want.Stdout) {
			c.Violate("C11", "captured-output", "task %s: captured output %s differs from the %d bytes its commands wrote to stdout %s", t.Name, quoteShort([]byte(rt.Output())), len(want.Stdout), quoteShort(want.Stdout))
		}
		if len(want.Stdout) > 0 {
			c.Count("c11_producers_with_output")
		}
		if len(want.Stdout) >= 4096 {
			c.Count("c11_outputs_ge_4k")
		}
	}
	// .Output chaining inside a task: command k sees the combined output of command k-1
	for _, t := range e.w.Tasks {
		if !x.runs[t.Name] || len(t.CmdText) == 0 {
			continue
		}
		prev := ""
		for _, r := range e.execsOf(t.Name) {
			if r.Info.Block != "cmd" {
				continue
			}
			got := strings.Join(r.Info.Args[4:], " ")
			want := strings.Join(strings.Fields(prev), " ")
			if got != want {
				c.Violate("C11", "chained-output", "task %s: command %s received .Output=%q, the previous command wrote %q", t.Name, r.Info.ID, got, prev)
				break
			}
			c.Count("c11_chained_commands_checked")
			var all []byte
			for _, ch := range e.w.PlanFor(r.Info.ID, e.pl.identity(r.Info.GID)).Chunks {
				all = append(all, ch.Data...)
			}
			prev = string(all)
		}
	}
	if e.w.Graph == nil || x.dag == nil {
		return
	}
	// dependants
	var walk func(g *GraphSpec)
	walk = func(g *GraphSpec) {
		for _, s := range g.Stages {
			if s.Nested != nil {
				walk(s.Nested)
				continue
			}
			consumer := e.stageTask(s)
			for _, dn := range s.Deps {
				d := g.Stage(dn)
				if d.Nested != nil || !x.dag.Ran[d.Name] {
					continue
				}
				prod := e.w.Task(e.stageTask(d))
				want := x.task[prod.Name]
				if !want.Complete {
					continue
				}
				name := mangleOutputName(prod.Name)
				if prod.ExportAs != "" {
					name = prod.ExportAs
				}
				for _, r := range e.execsOf(consumer) {
					got := r.Info.Env[name]
					if got != string(want.Stdout) {
						c.Violate("C11", "dependant-env", "stage %s (task %s) depends on %s: its command %s saw %s=%s, want the producer's output %s", s.Name, consumer, d.Name, r.Info.ID, name, quoteShort([]byte(got)), quoteShort(want.Stdout))
						break
					}
					c.Count("c11_dependant_execs_checked")
				}
			}
		}
	}
	walk(e.w.Graph)
}

func quoteShort(b []byte) string {
	if len(b) > 60 {
		return fmt.Sprintf("%q...(%d bytes)", b[:60], len(b))
	}
	return fmt.Sprintf("%q", b)
}

// resultTask returns the task object that carries the results of the execution of task
// `name`: a stage runs its own copy of a (possibly shared) task, a direct run uses the
// task object itself.
func (e *integEngine) resultTask(name string) *task.Task {
	direct := false
	for _, d := range e.w.Drivers {
		if d.Kind == "task" && d.Target == name {
			direct = true
		}
	}
	if !direct {
		for _, g := range e.w.AllGraphs() {
			for _, l := range g.AllLeaves() {
				if e.stageTask(l) == name {
					if st := e.stages[l.Name]; st != nil && st.Task != nil {
						return st.Task
					}
				}
			}
		}
	}
	return e.tasks[name]
}

// checkC01Integ: with the real runner, no command of a stage may start before every command of
// every stage it depends on has ended (and that stage's task has run to the point the model says).
func (e *integEngine) checkC01Integ(x *integExpect) {
	c := e.c
	if e.w.Graph == nil {
		return
	}
	var walk func(g *GraphSpec)
	walk = func(g *GraphSpec) {
		for _, s := range g.Stages {
			if s.Nested != nil {
				walk(s.Nested)
				continue
			}
			mine := e.execsOf(e.stageTask(s))
			if len(mine) == 0 {
				continue
			}
			first := mine[0].StartSeq
			for _, dn := range s.Deps {
				d := g.Stage(dn)
				if d.Nested != nil || d.Cond == "false" {
					continue
				}
				dex := e.execsOf(e.stageTask(d))
				want := x.task[e.stageTask(d)]
				if len(dex) == 0 && want != nil && want.Failed && len(want.Seq) == 0 {
					// the dependency failed before it could run anything (its execution context did
					// not come up); with allow_failure on the stage its dependants go on: finished
					// is then "its Run returned" - the context's up commands have ended
					if d.Allow {
						upEnd := -1
						for _, r := range e.execsOf("ctx:" + e.w.Task(e.stageTask(d)).Context) {
							if r.Info.Block == "up" && (r.EndSeq < 0 || r.EndSeq > upEnd) {
								upEnd = r.EndSeq
								if r.EndSeq < 0 {
									upEnd = 1 << 30
								}
							}
						}
						if first < upEnd {
							c.Violate("C01", "start-before-dep-real-runner", "stage %s started its first command (seq %d) while the start-up of the context of its dependency %s was still running (seq %d)", s.Name, first, d.Name, upEnd)
						}
						continue
					}
				}
				if len(dex) == 0 {
					c.Violate("C01", "start-before-dep-real-runner", "stage %s started its first command (seq %d) although its dependency %s has executed nothing", s.Name, first, d.Name)
					continue
				}
				for _, r := range dex {
					if r.EndSeq < 0 || r.EndSeq > first {
						c.Violate("C01", "start-before-dep-real-runner", "stage %s started its first command (seq %d) before command %s of its dependency %s had ended (seq %d)", s.Name, first, r.Info.Key, d.Name, r.EndSeq)
						break
					}
				}
				min := len(want.Seq)
				if want.OptionalFrom >= 0 {
					min = want.OptionalFrom
				}
				if len(dex) < min {
					c.Violate("C01", "start-before-dep-real-runner", "stage %s started (seq %d) when its dependency %s had run only %d of its %d commands", s.Name, first, d.Name, len(dex), min)
				}
				c.Count("c01i_dependency_edges_checked")
			}
		}
	}
	walk(e.w.Graph)
}

// checkC06Shared: a task shared by several stages; each stage's execution must follow the
// sequencing model fed with that stage's own injected statuses (condition, hooks, commands).
func (e *integEngine) checkC06Shared() {
	c := e.c
	for _, g := range e.w.AllGraphs() {
		if !e.pipelineRan(g.Name) {
			continue
		}
		dagFail := map[string]bool{}
		for _, s := range g.Stages {
			t := e.w.Task(e.stageTask(s))
			dagFail[s.Name] = ModelTaskFor(e.w, t, s.Name).Failed
		}
		for _, s := range g.Stages {
			s.Fail = dagFail[s.Name]
		}
		dag := EvalDag(g, false)
		if dag.Ambiguous {
			continue
		}
		for _, s := range g.Stages {
			t := e.w.Task(e.stageTask(s))
			var got []string
			var rs []*execRec
			for _, r := range e.execs {
				if r.Info.Owner == t.Name && e.pl.identity(r.Info.GID) == s.Name {
					got = append(got, r.Info.ID)
					rs = append(rs, r)
				}
			}
			if !dag.Ran[s.Name] {
				if len(got) > 0 {
					c.Violate("C06", "ran-unexpectedly", "stage %s must not run (a dependency failed) but executed %v", s.Name, got)
				}
				continue
			}
			want := ModelTaskFor(e.w, t, s.Name)
			min := len(want.Seq)
			if want.OptionalFrom >= 0 {
				min = want.OptionalFrom
			}
			ok := len(got) >= min && len(got) <= len(want.Seq)
			for i := 0; ok && i < len(got); i++ {
				if got[i] != want.Seq[i] {
					ok = false
				}
			}
			if !ok {
				c.Violate("C06", "sequence", "stage %s running the shared task %s executed %v, model (with this stage's condition / command results) expects %v", s.Name, t.Name, got, want.Seq)
				if len(got) == 0 && len(want.Seq) > 0 {
					c.Violate("C03", "eligible-not-run", "stage %s (task %s, shared with other stages) was eligible but executed nothing (status %s)", s.Name, t.Name, statusName(e.stages[s.Name].ReadStatus()))
				}
			}
			for i := 1; i < len(rs); i++ {
				if rs[i-1].EndSeq < 0 || rs[i].StartSeq < rs[i-1].EndSeq {
					c.Violate("C06", "overlap", "stage %s: %s started before %s ended", s.Name, rs[i].Info.Key, rs[i-1].Info.Key)
				}
			}
			if st := e.stages[s.Name]; st != nil && st.Task != nil && st.Task.Skipped != want.Skipped {
				c.Violate("C06", "skipped-flag", "stage %s: Skipped=%v, model %v", s.Name, st.Task.Skipped, want.Skipped)
			}
			// what the stage reports (C07): error exactly when this execution failed
			if st := e.stages[s.Name]; st != nil {
				wantSt := MDone
				switch {
				case want.Skipped:
					wantSt = MDone // a task skipped by its own condition: the stage is done
				case want.Failed && !s.Allow:
					wantSt = MError
				}
				if got := statusName(st.ReadStatus()); got != wantSt {
					c.Violate("C07", "stage-status", "stage %s (task %s, shared with other stages): status %s, the model of this execution (failed=%v, stage allow_failure=%v) says %s", s.Name, t.Name, got, want.Failed, s.Allow, wantSt)
				}
				if st.Task != nil && !want.Skipped && (st.Task.Errored != want.CmdFailed) && !(want.Failed && !want.CmdFailed) {
					c.Violate("C07", "failed-result", "stage %s (task %s, shared): Errored=%v, a command failed without allow_failure=%v", s.Name, t.Name, st.Task.Errored, want.CmdFailed)
				}
			}
			if want.Skipped {
				c.Count("c06s_skipped_executions")
			}
			c.Count("c06s_executions_checked")
		}
	}
}

// checkC01Overlap: the part of C01 that also holds when commands are cut short by timeouts: no
// command of a stage starts while a command of a stage it depends on is still running.
func (e *integEngine) checkC01Overlap() {
	c := e.c
	for _, g := range e.w.AllGraphs() {
		for _, s := range g.Stages {
			if s.Nested != nil {
				continue
			}
			mine := e.execsOf(e.stageTask(s))
			if len(mine) == 0 {
				continue
			}
			first := mine[0].StartSeq
			for _, dn := range s.Deps {
				d := g.Stage(dn)
				if d == nil || d.Nested != nil {
					continue
				}
				for _, r := range e.execsOf(e.stageTask(d)) {
					if r.StartSeq < first && (r.EndSeq < 0 || r.EndSeq > first) {
						c.Violate("C01", "start-before-dep-real-runner", "stage %s started its first command (seq %d) while command %s of its dependency %s was still running (ended seq %d)", s.Name, first, r.Info.Key, d.Name, r.EndSeq)
					}
				}
				c.Count("c01i_dependency_edges_checked")
			}
		}
	}
}

// checkC11Shared: a task shared by several stages - each stage's execution captures exactly what
// that execution's commands wrote to stdout (delivery recorded per goroutine), whatever the
// sibling executions write at the same time.
func (e *integEngine) checkC11Shared() {
	c := e.c
	wrote := map[string][]byte{} // stage -> stdout bytes delivered to the commands of its execution
	pos := map[string]int{}
	for _, ev := range c.Events {
		if ev.Kind != "exec-write" {
			continue
		}
		info := ev.Data.(*ExecInfo)
		who := e.pl.identity(info.GID)
		plan := e.w.PlanFor(info.ID, who)
		k := pos[info.Key]
		pos[info.Key] = k + 1
		if k >= len(plan.Chunks) || info.Block != "cmd" || plan.Chunks[k].Stream != 1 {
			continue
		}
		wrote[who] = append(wrote[who], plan.Chunks[k].Data...)
	}
	for _, g := range e.w.AllGraphs() {
		if !e.pipelineRan(g.Name) {
			continue
		}
		for _, s := range g.Stages {
			st := e.stages[s.Name]
			if st == nil || st.Task == nil || s.Nested != nil {
				continue
			}
			got := st.Task.Output()
			if got != string(wrote[s.Name]) {
				c.Violate("C11", "captured-output", "stage %s (task %s, shared with other stages): captured output %s differs from the %d bytes its own commands wrote to stdout %s", s.Name, e.stageTask(s), quoteShort([]byte(got)), len(wrote[s.Name]), quoteShort(wrote[s.Name]))
				return
			}
			if len(got) > 0 {
				c.Count("c11s_stage_outputs_checked")
			}
		}
		// a chain of stages that all run the shared task: stage k sees, under <NAME>_OUTPUT, what
		// stage k-1 (its only dependency, and the latest execution to finish) captured - not what an
		// earlier execution of the task left behind
		chain := len(g.Stages) >= 2
		for i, s := range g.Stages {
			if s.Nested != nil || (i == 0 && len(s.Deps) != 0) || (i > 0 && (len(s.Deps) != 1 || s.Deps[0] != g.Stages[i-1].Name)) {
				chain = false
			}
		}
		if !chain || len(e.w.AllGraphs()) != 1 {
			continue
		}
		for i := 1; i < len(g.Stages); i++ {
			d, s := g.Stages[i-1], g.Stages[i]
			t := e.w.Task(e.stageTask(d))
			if t == nil || e.stageTask(s) != t.Name || !ModelTaskFor(e.w, t, d.Name).Complete {
				break // the chain ends where an execution did not complete
			}
			name := mangleOutputName(t.Name)
			if t.ExportAs != "" {
				name = t.ExportAs
			}
			for _, r := range e.execs {
				if e.pl.identity(r.Info.GID) != s.Name || r.Info.Owner != t.Name || r.Info.Block == "cond" {
					continue
				}
				if got := r.Info.Env[name]; got != string(wrote[d.Name]) {
					c.Violate("C11", "dependant-env", "stage %s depends on stage %s (both run task %s): its command %s saw %s=%s, the dependency's execution captured %s", s.Name, d.Name, t.Name, r.Info.Key, name, quoteShort([]byte(got)), quoteShort(wrote[d.Name]))
					return
				}
				c.Count("c11s_chain_dependant_execs_checked")
			}
		}
	}
}

// checkC01Shared: stages sharing one task (executions told apart by goroutine): no command of a
// stage starts before every command of every stage it depends on has ended.
func (e *integEngine) checkC01Shared() {
	c := e.c
	first := map[string]int{}
	last := map[string]int{}
	for _, r := range e.execs {
		who := e.pl.identity(r.Info.GID)
		if who == "" {
			continue
		}
		if _, ok := first[who]; !ok {
			first[who] = r.StartSeq
		}
		end := r.EndSeq
		if end < 0 {
			end = 1 << 30
		}
		if end > last[who] {
			last[who] = end
		}
	}
	for _, g := range e.w.AllGraphs() {
		for _, s := range g.Stages {
			fs, ran := first[s.Name]
			if !ran {
				continue
			}
			for _, dn := range s.Deps {
				d := g.Stage(dn)
				if d == nil || d.Nested != nil || d.Cond != "" {
					continue
				}
				if _, ok := first[dn]; !ok {
					c.Violate("C01", "start-before-dep-real-runner", "stage %s of %s started its first command (seq %d) although its dependency %s has executed nothing", s.Name, g.Name, fs, dn)
					return
				}
				if fs < last[dn] {
					c.Violate("C01", "start-before-dep-real-runner", "stage %s of %s started its first command (seq %d) before its dependency %s had finished its last one (seq %d)", s.Name, g.Name, fs, dn, last[dn])
					return
				}
				c.Count("c01_shared_task_edges_checked")
			}
		}
	}
}

package verifsim

import (
	"sort"
	"strings"
	"sync"

	"github.com/taskctl/taskctl/pkg/scheduler"
)

// Visiting order of the scheduling passes (hook VerifOrder + the `range g.Nodes()` rewrite of
// bin/build.sh): Go leaves map iteration order unspecified, the simulator makes it a function of
// one drawn value, the graph and the number of passes that graph has seen. 0 = sorted by name.
func installPassOrder(c *Ctl) func() {
	if orderedLoops == 0 {
		return func() {}
	}
	seed := uint64(c.Ch.Choose(1<<16, "pass-order-seed"))
	var mu sync.Mutex
	count := map[string]int{}
	scheduler.VerifOrder = func(m map[string]*scheduler.Stage) []*scheduler.Stage {
		names := make([]string, 0, len(m))
		for n := range m {
			names = append(names, n)
		}
		sort.Strings(names)
		if seed != 0 && len(names) > 1 {
			// (the key identifies the graph: stage names may be shared with other graphs, the
			// world-unique names are not - a counter shared by two graphs would make the order
			// depend on which of their loops the runtime wakes first)
			uniq := make([]string, 0, len(names))
			for _, n := range names {
				uniq = append(uniq, uniqOf(m[n]))
			}
			key := strings.Join(uniq, ",")
			mu.Lock()
			k := count[key]
			count[key] = k + 1
			mu.Unlock()
			h := seed*0x9E3779B97F4A7C15 + uint64(k)*0xBF58476D1CE4E5B9
			for i := 0; i < len(key); i++ {
				h = (h ^ uint64(key[i])) * 0x100000001B3
			}
			for i := len(names) - 1; i > 0; i-- {
				h ^= h >> 29
				h *= 0x94D049BB133111EB
				h ^= h >> 32
				j := int(h % uint64(i+1))
				names[i], names[j] = names[j], names[i]
			}
		}
		out := make([]*scheduler.Stage, len(names))
		for i, n := range names {
			out[i] = m[n]
		}
		return out
	}
	return func() { scheduler.VerifOrder = nil }
}

package verifsim

import (
	"bytes"
	"fmt"
	"strings"
)

// World generators and profiles of the INTEG engine.

type IntegGen struct {
	MaxTasks       int
	MaxCmd         int
	MaxVar         int
	MaxHook        int
	CondProb       int // per task, out of 100
	AllowProb      int
	FailProb       int // per exec, out of 100
	NotFoundPct    int
	HookFailPct    int
	OutputProb     int // per cmd exec: has output
	BigOutput      bool
	StderrProb     int
	ChainProb      int    // task uses {{.Output}} chaining
	PipelinePct    int    // world is a pipeline (else direct drivers)
	DurMax         int    // ms
	Names          string // "simple" | "ascii"
	ExportPct      int
	InteractivePct int  // per task: declared interactive
	OddCommands    bool // blank command entries, commands starting with a background statement
	HugePct        int  // per world: one command prints more than 1 MiB
	CtxPct         int  // per world: a context (whose up commands may fail) used by some of the tasks
	HookOutput     bool // before/after hooks print something too (it is not part of the captured output)
	StageGen       SchedGenParams
}

var exitCodes = []int{1, 2, 3, 7, 42, 100, 125, 126, 127, 128, 129, 130, 137, 143, 200, 254, 255}

func genExit(ch *Choices) int {
	if ch.Bool(1, 3, "exit-any") {
		return 1 + ch.Choose(255, "exit-code")
	}
	return exitCodes[ch.Choose(len(exitCodes), "exit-pick")]
}

var wordAlphabet = "abcdefghijklmnopqrstuvwxyz0123456789"

func genWord(ch *Choices, max int) string {
	n := 1 + ch.Choose(max, "word-len")
	b := make([]byte, n)
	for i := range b {
		b[i] = wordAlphabet[ch.Choose(len(wordAlphabet), "word-ch")]
	}
	return string(b)
}

var unicodeBits = []string{"é", "ß", "λ", "Ж", "中", "文", "🙂", "→", "ñ", "ø"}

// genOutput draws the bytes one process writes to stdout.
func genOutput(ch *Choices, big bool, shellSafe bool) []byte {
	if shellSafe {
		out := genWord(ch, 8)
		if ch.Bool(1, 2, "two-words") {
			out += " " + genWord(ch, 6)
		}
		if ch.Bool(2, 3, "trailing-nl") {
			out += "\n"
		}
		return []byte(out)
	}
	kind := ch.Weighted([]int{4, 4, 3, 2, 1, 3}, "out-kind")
	switch kind {
	case 0: // one short line
		return []byte(genWord(ch, 10) + "\n")
	case 1: // several lines, some empty, maybe unterminated
		var sb strings.Builder
		n := 1 + ch.Choose(5, "lines")
		for i := 0; i < n; i++ {
			if !ch.Bool(1, 5, "empty-line") {
				sb.WriteString(genWord(ch, 12))
				if ch.Bool(1, 4, "space") {
					sb.WriteString(" " + genWord(ch, 5))
				}
			}
			if i < n-1 || ch.Bool(3, 4, "last-nl") {
				if ch.Bool(1, 6, "crlf") {
					sb.WriteString("\r\n")
				} else {
					sb.WriteString("\n")
				}
			}
		}
		return []byte(sb.String())
	case 2: // unicode
		var sb strings.Builder
		n := 1 + ch.Choose(6, "uni-n")
		for i := 0; i < n; i++ {
			sb.WriteString(unicodeBits[ch.Choose(len(unicodeBits), "uni")])
			if ch.Bool(1, 3, "uni-ascii") {
				sb.WriteString(genWord(ch, 4))
			}
		}
		if ch.Bool(1, 2, "uni-nl") {
			sb.WriteString("\n")
		}
		return []byte(sb.String())
	case 5: // coloured / terminal-control output (cut points may fall inside a sequence)
		return genStream(ch, false)
	case 3: // quoting hazards for env transport
		opts := []string{"a=b\n", "x y  z\n", "$HOME `id` $(id)\n", "'single' \"double\"\n", "tab\there\n", "-n\n", "*\n", "\\\\n\n", " lead and trail \n", "\n\n\n"}
		return []byte(opts[ch.Choose(len(opts), "hazard")])
	default:
		if !big {
			return []byte(genWord(ch, 30) + "\n")
		}
		size := []int{1024, 4096, 4097, 16384, 65536}[ch.Choose(5, "big-size")]
		b := make([]byte, size)
		line := 0
		for i := range b {
			line++
			if line > 60+i%17 {
				b[i] = '\n'
				line = 0
			} else {
				b[i] = wordAlphabet[(i*7+size)%len(wordAlphabet)]
			}
		}
		return b
	}
}

// splitChunks cuts data into write calls at seeded points.
func splitChunks(ch *Choices, data []byte, stream int, maxChunks int) []Chunk {
	if len(data) == 0 {
		if ch.Bool(1, 4, "empty-write") {
			return []Chunk{{Stream: stream, Data: []byte{}}}
		}
		return nil
	}
	n := 1
	if maxChunks > 1 && len(data) > 1 {
		n = 1 + ch.Choose(maxChunks, "n-chunks")
	}
	var out []Chunk
	rest := data
	for i := 0; i < n-1 && len(rest) > 1; i++ {
		cut := 1 + ch.Choose(len(rest)-1, "cut")
		out = append(out, Chunk{Stream: stream, Data: rest[:cut]})
		rest = rest[cut:]
	}
	out = append(out, Chunk{Stream: stream, Data: rest})
	return out
}

var asciiNameChars = "abcXYZ019_-.:+@%,"

func genTaskName(ch *Choices, i int, style string, used map[string]bool) string {
	for try := 0; ; try++ {
		var name string
		if style != "ascii" || try > 20 {
			name = fmt.Sprintf("t%d", i)
			if try > 20 {
				name = fmt.Sprintf("t%d_%d", i, try)
			}
		} else {
			n := 1 + ch.Choose(6, "name-len")
			b := make([]byte, n)
			for k := range b {
				b[k] = asciiNameChars[ch.Choose(len(asciiNameChars), "name-ch")]
			}
			name = string(b)
			if name[0] == '-' || name[0] == '.' {
				name = "n" + name
			}
		}
		m := mangleOutputName(name)
		if !used[m] {
			used[m] = true
			return name
		}
	}
}

// GenTaskWorld draws a world of tasks run directly or as a pipeline.
func GenTaskWorld(ch *Choices, p IntegGen) *IntegWorld {
	w := &IntegWorld{Plans: map[string]*ExecPlan{}, Format: "raw"}
	pipeline := ch.Bool(p.PipelinePct, 100, "pipeline")
	var names []string
	used := map[string]bool{}
	if pipeline {
		g := GenGraph(ch, p.StageGen, "", 0)
		w.Graph = g
		for _, l := range g.AllLeaves() {
			names = append(names, l.Name)
			used[mangleOutputName(l.Name)] = true
		}
		if p.Names == "ascii" {
			// rename tasks (not stages): stage -> task mapping through StageSpec.Task
			for _, l := range g.AllLeaves() {
				l.Task = genTaskName(ch, len(used), "ascii", used)
			}
			names = nil
			for _, l := range g.AllLeaves() {
				names = append(names, l.Task)
			}
		}
		w.Drivers = []DriverSpec{{Kind: "pipeline", Target: g.Name}}
	} else {
		n := ch.Range(1, p.MaxTasks, "n-tasks")
		for i := 0; i < n; i++ {
			names = append(names, genTaskName(ch, i, p.Names, used))
		}
		for _, nm := range names {
			w.Drivers = append(w.Drivers, DriverSpec{Kind: "task", Target: nm})
		}
		w.Sequential = ch.Bool(1, 3, "sequential")
	}
	for _, nm := range names {
		t := &TaskSpec{Name: nm}
		t.NCmd = ch.Range(1, p.MaxCmd, "ncmd")
		if p.OddCommands && p.ChainProb == 0 {
			if t.NCmd >= 2 && ch.Bool(1, 8, "blank-command-entry") {
				t.BlankAt = 1 + ch.Choose(t.NCmd, "blank-at")
			}
			if ch.Bool(1, 8, "background-prefix") {
				t.BgPrefix = map[int]bool{ch.Choose(t.NCmd, "bg-which"): true}
			}
		}
		if p.MaxVar > 1 && ch.Bool(1, 3, "has-var") {
			t.NVar = ch.Range(2, p.MaxVar, "nvar")
			if ch.Bool(1, 4, "empty-variation") {
				t.EmptyVar = 1 + ch.Choose(t.NVar, "empty-which")
			}
		}
		if p.MaxHook > 0 {
			if ch.Bool(1, 3, "has-before") {
				t.NBefore = ch.Range(1, p.MaxHook, "nbefore")
			}
			if ch.Bool(1, 3, "has-after") {
				t.NAfter = ch.Range(1, p.MaxHook, "nafter")
			}
		}
		t.Cond = ch.Bool(p.CondProb, 100, "task-cond")
		t.Allow = ch.Bool(p.AllowProb, 100, "task-allow")
		if p.InteractivePct > 0 && ch.Bool(p.InteractivePct, 100, "interactive") {
			t.Interactive = true // its output goes to the terminal unfiltered - and is still captured
		}
		if ch.Bool(p.ExportPct, 100, "export-as") {
			t.ExportAs = fmt.Sprintf("EXP_%s_%d", strings.ToUpper(genWord(ch, 5)), len(w.Tasks)) // unique per task
		}
		chain := ch.Bool(p.ChainProb, 100, "chain-output")
		if chain {
			t.CmdText = map[int]string{}
			for i := 0; i < t.NCmd; i++ {
				t.CmdText[i] = cmdText(t.Name, "cmd", i) + " {{.Output}}"
			}
		}
		w.Tasks = append(w.Tasks, t)
		// plans
		plan := func(id string, failPct int, output bool) {
			pl := &ExecPlan{}
			set := false
			if ch.Bool(failPct, 100, "exec-fail") {
				if !chain && ch.Bool(p.NotFoundPct, 100, "not-found") {
					pl.NotFound = true
				} else {
					pl.Exit = genExit(ch)
				}
				set = true
			}
			if p.DurMax > 0 && ch.Bool(1, 2, "has-dur") {
				pl.DurMS = ch.Choose(p.DurMax+1, "dur")
				set = set || pl.DurMS > 0
			}
			if output && ch.Bool(p.OutputProb, 100, "has-output") {
				data := genOutput(ch, p.BigOutput, chain)
				pl.Chunks = splitChunks(ch, data, 1, 4)
				if !chain && ch.Bool(p.StderrProb, 100, "stderr") {
					e := splitChunks(ch, []byte("warn: "+genWord(ch, 8)+"\n"), 2, 2)
					pos := ch.Choose(len(pl.Chunks)+1, "stderr-pos")
					merged := append([]Chunk{}, pl.Chunks[:pos]...)
					merged = append(merged, e...)
					merged = append(merged, pl.Chunks[pos:]...)
					pl.Chunks = merged
				}
				set = true
			}
			if set {
				w.Plans[id] = pl
			}
		}
		if t.Cond {
			plan(execID(nm, "cond", 0, ""), 50, false)
		}
		for i := 0; i < t.NBefore; i++ {
			plan(execID(nm, "before", i, ""), p.HookFailPct, p.HookOutput)
		}
		vars := []string{""}
		if t.NVar > 0 {
			vars = nil
			for k := 0; k < t.NVar; k++ {
				vars = append(vars, t.VarName(k))
			}
		}
		for _, v := range vars {
			for i := 0; i < t.NCmd; i++ {
				plan(execID(nm, "cmd", i, v), p.FailProb, true)
			}
		}
		for i := 0; i < t.NAfter; i++ {
			plan(execID(nm, "after", i, ""), p.HookFailPct, p.HookOutput)
		}
	}
	if p.HugePct > 0 && len(w.Tasks) > 0 && ch.Bool(p.HugePct, 100, "huge-output") {
		// one command prints more than a megabyte (a chatty build): nothing may be lost or cut,
		// and the command must not fail because of it
		t := w.Tasks[ch.Choose(len(w.Tasks), "huge-which")]
		v := ""
		if t.NVar > 0 {
			v = t.VarName(ch.Choose(t.NVar, "huge-var"))
		}
		id := execID(t.Name, "cmd", ch.Choose(t.NCmd, "huge-cmd"), v)
		pl := w.Plans[id]
		if pl == nil {
			pl = &ExecPlan{}
			w.Plans[id] = pl
		}
		if len(t.CmdText) == 0 {
			line := []byte(strings.Repeat("0123456789abcdef", 64)[:1023] + "\n")
			n := 1100 + ch.Choose(400, "huge-kib")
			pl.Chunks = nil
			for k := 0; k < n; k += 64 {
				m := 64
				if n-k < m {
					m = n - k
				}
				pl.Chunks = append(pl.Chunks, Chunk{Stream: 1, Data: bytes.Repeat(line, m)})
			}
		}
	}
	if p.CtxPct > 0 && ch.Bool(p.CtxPct, 100, "has-context") {
		// some of the tasks run in an execution context whose start-up may fail: none of them can
		// run then - the first one to use the context and all later ones alike
		cs := &CtxSpec{Name: "cx", NUp: ch.Range(1, 2, "nup"), NDown: ch.Choose(2, "ndown"), NBefore: ch.Choose(2, "ncb"), NAfter: ch.Choose(2, "nca")}
		w.Contexts = []*CtxSpec{cs}
		if ch.Bool(1, 2, "up-fails") {
			w.Plans[execID("ctx:cx", "up", ch.Choose(cs.NUp, "up-fails-which"), "")] = &ExecPlan{Exit: genExit(ch)}
		}
		n := 0
		for _, t := range w.Tasks {
			if n == 0 || ch.Bool(1, 2, "in-context") {
				t.Context = "cx"
				n++
			}
		}
	}
	return w
}

func defaultIntegProfile() *IntegProfile {
	return &IntegProfile{StepCap: 600, WExec: 10, WYield: 10, WDriver: 10, WAdvance: 3, CancelAt: -1, Checks: map[string]bool{}}
}

func runIntegJob(c *Ctl, job *Job, idx int, res *RunResult) {
	thorough := job.Tier == "thorough"
	prof := defaultIntegProfile()
	gen := IntegGen{MaxTasks: 3, MaxCmd: 3, MaxVar: 3, MaxHook: 2, CondProb: 20, AllowProb: 35, FailProb: 25, NotFoundPct: 10,
		HookFailPct: 20, OutputProb: 30, StderrProb: 20, PipelinePct: 40, DurMax: 120, Names: "simple",
		StageGen: SchedGenParams{MaxStages: 4, NestProb: 15, FailProb: 0, AllowProb: 30, CondProb: 15, MaxDepth: 1, NoTrueCondWithDeps: true}}
	if thorough {
		gen.MaxTasks = 5
		gen.MaxHook = 3
		gen.StageGen.MaxStages = 6
	}
	var w *IntegWorld
	switch job.Profile {
	case "c06":
		prof.Checks["C06"] = true
		prof.Checks["C07"] = true
		gen.HookOutput = true
		gen.HugePct = 2
		gen.InteractivePct = 10
		gen.OddCommands = true
		w = GenTaskWorld(c.Ch, gen)
		w.Format = []string{"raw", "prefixed", "cockpit"}[c.Ch.Weighted([]int{3, 2, 1}, "format")]
	case "c07":
		prof.Checks["C06"] = true
		prof.Checks["C07"] = true
		if idx < 256*3*2 {
			// systematic: every exit status at every command position, with and without allow_failure
			w = &IntegWorld{Plans: map[string]*ExecPlan{}, Format: "raw"}
			t := &TaskSpec{Name: "t0", NCmd: 3, Allow: (idx/768)%2 == 1}
			w.Tasks = []*TaskSpec{t}
			pos := (idx / 256) % 3
			if st := idx % 256; st != 0 {
				w.Plans[execID("t0", "cmd", pos, "")] = &ExecPlan{Exit: st}
			}
			if c.Ch.Bool(1, 2, "as-stage") {
				w.Graph = &GraphSpec{Name: "root", Stages: []*StageSpec{{Name: "t0", Allow: c.Ch.Bool(1, 2, "stage-allow")}}}
				w.Drivers = []DriverSpec{{Kind: "pipeline", Target: "root"}}
			} else {
				w.Drivers = []DriverSpec{{Kind: "task", Target: "t0"}}
			}
			c.Count("c07_systematic_status_position")
		} else {
			gen.FailProb = 35
			gen.OutputProb = 50
			gen.HookOutput = true
			gen.CtxPct = 15
			gen.InteractivePct = 10
			w = GenTaskWorld(c.Ch, gen)
			// what is reported must not depend on how the output is presented
			w.Format = []string{"raw", "prefixed", "cockpit"}[c.Ch.Weighted([]int{2, 3, 1}, "format")]
		}
	case "c11":
		prof.Checks["C11"] = true
		prof.Checks["C06"] = true
		gen.OutputProb = 85
		gen.BigOutput = true
		gen.PipelinePct = 70
		gen.FailProb = 10
		gen.CondProb = 8
		gen.ChainProb = 25
		gen.ExportPct = 25
		gen.Names = "ascii"
		gen.HookOutput = true
		gen.InteractivePct = 12
		gen.HugePct = 2
		gen.StageGen.CondProb = 8
		gen.StageGen.NestProb = 25
		gen.StageGen.SharedNestProb = 40 // a producer inside a pipeline nested by two stages: both nesting stages finish only when it has
		w = GenTaskWorld(c.Ch, gen)
		// the captured output must not depend on the output format chosen for the terminal
		w.Format = []string{"raw", "prefixed", "cockpit"}[c.Ch.Weighted([]int{2, 2, 1}, "format")]
		c.Count("c11_format_" + w.Format)
	default:
		res.HarnessErr = "unknown integ profile " + job.Profile
		return
	}
	// a share of the flat pipeline worlds is written to a configuration file and built by the real
	// loader (stage / task attributes travel through internal/config instead of the Go API)
	if w.Graph != nil && (job.Profile == "c06" || job.Profile == "c07") && idx >= 1536 {
		flat := true
		for _, st := range w.Graph.Stages {
			if st.Nested != nil {
				flat = false
			}
		}
		if flat && c.Ch.Bool(1, 2, "via-config") {
			w.ViaConfig = true
			c.Count("worlds_built_by_config_loader")
		}
	}
	if idx%3 == 1 {
		// a third of the runs also preempt goroutines at function entries inside taskctl's code
		prof.PreemptPct, prof.PreemptDepth = 25, 14
	}
	res.Sample = map[string]interface{}{"world": w.Summary()}
	e := RunIntegWorld(c, prof, w, res)
	if e == nil {
		return
	}
	e.posthoc(res)
}

func (e *integEngine) posthoc(res *RunResult) {
	x := e.computeExpect()
	if e.prof.Checks["C06"] {
		e.checkC06(x)
		e.checkC01Integ(x)
		e.checkC03Integ()
	}
	if e.prof.Checks["C07"] {
		e.checkC07(x)
	}
	if e.prof.Checks["C11"] {
		e.checkC11(x)
	}
	res.NonTrivial = e.maxExecPar >= 2 || e.faultsFired > 0 || e.c.Counters["fault_exit_nonzero"] > 0 || e.c.Counters["fault_exec_not_found"] > 0
	e.c.Counters[fmt.Sprintf("max_parallel_execs_%d", e.maxExecPar)]++
}

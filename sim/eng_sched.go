package verifsim

import (
	"errors"
	"fmt"
	"os"
	"path/filepath"
	"sort"
	"strings"
	"sync"
	"sync/atomic"
	"time"

	"github.com/taskctl/taskctl/pkg/scheduler"
	"github.com/taskctl/taskctl/pkg/task"
	vsync "github.com/taskctl/taskctl/pkg/verifvsync"
)

// SCHED engine: the real scheduler (Schedule loop, checkStatus, runStage,
// nested pipelines, Cancel) runs against a controlled Runner stub. Serves
// C01, C02, C03 (scheduler part), C04 and the scheduler-level part of C12.

// simPause is the polling pause the simulator gives every Scheduler (hook H7): small, so that
// settling the polling loop (several passes) costs little simulated time.
const simPause = 100 * time.Microsecond
const pollPause = simPause
const simTick = 5 * time.Millisecond
const liveBound = 10 * time.Second

// schedLiveBound: the SCHED engine has no process durations, so simulated time only passes in the
// polling loop; "bounded time" there means some hundreds of polling passes at the simulator's pause
// plus coarse steps that also cover a loop that does not honour the pause override.
const schedLiveBound = 2500 * time.Millisecond

var statusNames = []string{MWaiting, "running", MSkipped, MDone, MError, MCanceled}

func statusName(s int32) string {
	if s < 0 || int(s) >= len(statusNames) {
		return fmt.Sprintf("status(%d)", s)
	}
	return statusNames[s]
}

var errStubFailed = errors.New("sim: task failed")
var errStubCancelled = errors.New("sim: runner cancelled")

type stubRunner struct {
	c         *Ctl
	leaves    map[string]*StageSpec
	cancelCh  chan struct{}
	cancelled int32
	once      sync.Once
	finished  int32
}

func (r *stubRunner) Run(t *task.Task) error {
	name := t.Name
	r.c.Note("run-enter", name, "")
	if atomic.LoadInt32(&r.cancelled) != 0 {
		r.c.Note("run-exit", name, "cancelled")
		return errStubCancelled
	}
	act, ok := r.c.YieldOr("run", name, nil, r.cancelCh)
	if !ok || act.Kind == "abort" {
		r.c.Note("run-exit", name, "cancelled")
		return errStubCancelled
	}
	spec := r.leaves[name]
	if spec != nil && spec.Fail {
		t.Errored = true
		t.ExitCode = 1
		r.c.Note("run-exit", name, "fail")
		return errStubFailed
	}
	r.c.Note("run-exit", name, "ok")
	return nil
}

func (r *stubRunner) Cancel() {
	r.once.Do(func() {
		atomic.StoreInt32(&r.cancelled, 1)
		close(r.cancelCh)
	})
}

func (r *stubRunner) Finish() { atomic.AddInt32(&r.finished, 1) }

// buildRealGraph builds the real ExecutionGraph through the public builder in
// declaration order. An error means the real builder rejected the graph.
func buildRealGraph(g *GraphSpec, stages map[string]*scheduler.Stage) (*scheduler.ExecutionGraph, error) {
	return buildRealGraphC(g, stages, map[*GraphSpec]*scheduler.ExecutionGraph{})
}

// (a pipeline nested by several stages is one shared graph object, as the configuration builder makes it)
func buildRealGraphC(g *GraphSpec, stages map[string]*scheduler.Stage, built map[*GraphSpec]*scheduler.ExecutionGraph) (*scheduler.ExecutionGraph, error) {
	if eg, ok := built[g]; ok {
		return eg, nil
	}
	eg, err := scheduler.NewExecutionGraph()
	if err != nil {
		return nil, err
	}
	built[g] = eg
	for _, s := range g.Stages {
		st := &scheduler.Stage{
			Name:         s.RealName(),
			DependsOn:    g.RealDeps(s),
			AllowFailure: s.Allow,
		}
		switch s.Cond {
		case "true":
			st.Condition = trueCondition(s.Name)
		case "false":
			st.Condition = falseCondition(s.Name)
		case "missing":
			st.Condition = "/nonexistent/verif-missing-binary"
		}
		if s.Nested != nil {
			inner, err := buildRealGraphC(s.Nested, stages, built)
			if err != nil {
				return nil, err
			}
			st.Pipeline = inner
		} else {
			t := task.FromCommands("sim " + s.Name)
			t.Name = s.Name
			t.Interactive = s.Interactive
			st.Task = t
		}
		stages[s.Name] = st
		uniqMu.Lock()
		uniqName[st] = s.Name
		uniqMu.Unlock()
		if err := eg.AddStage(st); err != nil {
			return nil, err
		}
	}
	return eg, nil
}

// uniqName: the world-unique name of a real stage object (its Name may be shared with a stage of
// another pipeline). Reset per run.
var (
	uniqMu   sync.Mutex
	uniqName = map[*scheduler.Stage]string{}
)

// gidStage: goroutine id of a stage goroutine -> unique stage name (identity of preemption parks)
var gidStage sync.Map

// flipConds: stage (unique name) -> path of its condition, a symbolic link that says yes until the
// stage's task is running and no from then on (a condition belongs to the moment a stage is
// started; what it says later must not matter)
var (
	flipMu    sync.Mutex
	flipConds = map[string]string{}
	flipSeq   int
)

func trueCondition(stage string) string {
	if byteSum(stage)%2 == 0 {
		return "/bin/true"
	}
	flipMu.Lock()
	defer flipMu.Unlock()
	flipSeq++
	p := filepath.Join(scratchRoot(), fmt.Sprintf("cond-flip-%d", flipSeq))
	os.MkdirAll(scratchRoot(), 0o755)
	os.Remove(p)
	if os.Symlink("/bin/true", p) != nil {
		return "/bin/true"
	}
	flipConds[stage] = p
	return p
}

// flipCondition: from now on the stage's condition says no.
func flipCondition(stage string) bool {
	flipMu.Lock()
	p, ok := flipConds[stage]
	delete(flipConds, stage)
	flipMu.Unlock()
	if !ok {
		return false
	}
	os.Remove(p)
	return os.Symlink("/bin/false", p) == nil
}

func resetUniq() {
	uniqMu.Lock()
	uniqName = map[*scheduler.Stage]string{}
	uniqMu.Unlock()
	gidStage = sync.Map{}
	flipMu.Lock()
	for _, p := range flipConds {
		os.Remove(p)
	}
	flipConds = map[string]string{}
	flipMu.Unlock()
}

func uniqOf(st *scheduler.Stage) string {
	uniqMu.Lock()
	defer uniqMu.Unlock()
	if n, ok := uniqName[st]; ok {
		return n
	}
	return st.Name
}

type SchedProfile struct {
	Gen         SchedGenParams
	StepCap     int
	WRelease    int
	WAdvance    int
	WBarrier    int
	AlwaysBar   bool // C04 barrier workload: settle before every completion
	Faults      int  // number of Cancel fault goroutines (0..2)
	WFault      int
	WMidpass    int // weight of "a running task completes in the middle of a scheduling pass"
	CancelAt    int // >=0: fire the first Cancel exactly at this step; -1: weighted
	CancelAfter bool
	// PreemptPct: percent of the releases after which the released stage goroutine is taken off
	// the processor again before one of its next PreemptDepth statements (e.g. between the two
	// status stores that follow the return of its task)
	PreemptPct   int
	PreemptDepth int
}

type schedEngine struct {
	c        *Ctl
	prof     *SchedProfile
	g        *GraphSpec
	model    *DagResult
	modelAlt *DagResult
	stages   map[string]*scheduler.Stage
	parents  map[string][]*StageSpec // stage name -> the stages that nest its pipeline (none at root)
	graphOf  map[string]*GraphSpec   // stage name -> graph that declares it
	byName   map[string]*StageSpec

	returned      bool
	retErr        string
	cancelSeen    bool
	cancelRet     int
	enters        map[string]int
	exits         map[string]string // leaf -> outcome
	exitCount     map[string]int
	maxInflight   int
	faultsFired   int
	midArm        int32 // >0: park at the n-th visit of a stage by the root pipeline's scheduling loops
	nstages       int
	stageReleased map[string]bool
	hasConds      bool // some stage of the world has a condition (a real fork) or nests a pipeline (a second loop)
}

func (e *schedEngine) index(g *GraphSpec, parent *StageSpec) {
	for _, s := range g.Stages {
		e.byName[s.Name] = s
		if parent != nil {
			dup := false
			for _, q := range e.parents[s.Name] {
				if q == parent {
					dup = true
				}
			}
			if !dup {
				e.parents[s.Name] = append(e.parents[s.Name], parent)
			}
		}
		e.graphOf[s.Name] = g
		if s.Nested != nil {
			e.index(s.Nested, s)
		}
	}
}

// inflightLeaves: leaf stages currently between run-enter and run-exit.
func (e *schedEngine) inflight(name string) bool {
	_, exited := e.exits[name]
	return e.enters[name] > 0 && !exited
}

// finishedOK reports whether dependency d counts as finished (and satisfied)
// according to the simulator's own history.
func (e *schedEngine) depSatisfied(d *StageSpec) (bool, string) {
	if d.Cond == "false" {
		return true, ""
	}
	if d.Cond == "missing" {
		// the condition could not be evaluated: the stage failed without running
		if d.Allow {
			return true, ""
		}
		return false, d.Name + " failed (condition error) without allow_failure"
	}
	if d.Nested == nil {
		out, ok := e.exits[d.Name]
		if ok && e.enters[d.Name] > e.exitCount[d.Name] {
			return false, fmt.Sprintf("%s is running (execution %d of it has not returned)", d.Name, e.enters[d.Name])
		}
		if !ok {
			if e.enters[d.Name] > 0 {
				return false, d.Name + " is still running"
			}
			return false, d.Name + " has not run"
		}
		if out == "ok" || d.Allow {
			return true, ""
		}
		return false, d.Name + " failed (" + out + ") without allow_failure"
	}
	// nested pipeline: its own stage goroutine must have been let go, nothing inside may
	// be in flight, everything the model runs must have exited, and the inner result
	// must be ok or allowed
	if !e.stageReleased[d.Name] {
		return false, "nested " + d.Name + " has not started"
	}
	for _, l := range d.Nested.AllLeaves() {
		if e.inflight(l.Name) {
			return false, "nested " + d.Name + ": inner stage " + l.Name + " is still running"
		}
	}
	if e.cancelSeen {
		return true, ""
	}
	// a pipeline nested deeper inside has its own stage goroutine: it must have been let go as well
	if inner := e.unstartedNested(d.Nested); inner != "" {
		return false, "nested " + d.Name + ": the stage " + inner + " inside it (itself a nested pipeline) has not started"
	}
	for _, l := range d.Nested.AllLeaves() {
		if e.model.Ran[l.Name] || e.modelAlt.Ran[l.Name] {
			if _, ok := e.exits[l.Name]; !ok && e.model.Ran[l.Name] && e.modelAlt.Ran[l.Name] {
				return false, "nested " + d.Name + ": inner stage " + l.Name + " has not run yet"
			}
		}
	}
	if e.model.Err[d.Nested.Name] && e.modelAlt.Err[d.Nested.Name] && !d.Allow {
		return false, "nested " + d.Name + " failed without allow_failure"
	}
	return true, ""
}

// unstartedNested: a stage inside g that nests a pipeline, that both readings of the model execute,
// and whose goroutine has not been released from its start yet ("" if none).
func (e *schedEngine) unstartedNested(g *GraphSpec) string {
	for _, s := range g.Stages {
		if s.Nested == nil {
			continue
		}
		st, alt := e.model.Status[s.Name], e.modelAlt.Status[s.Name]
		runs := (st == MDone || st == MError) && (alt == MDone || alt == MError)
		if !runs {
			continue
		}
		if !e.stageReleased[s.Name] {
			return s.Name
		}
		if inner := e.unstartedNested(s.Nested); inner != "" {
			return inner
		}
	}
	return ""
}

// chainSatisfied: the dependencies of s are satisfied, and so are those of at least one chain of
// stages that nest s's pipeline (and that stage's goroutine has been started).
func (e *schedEngine) chainSatisfied(s *StageSpec) (bool, string) {
	g := e.graphOf[s.Name]
	for _, dn := range s.Deps {
		if ok, why := e.depSatisfied(g.Stage(dn)); !ok {
			return false, fmt.Sprintf("dependency %s of %s is not finished: %s", dn, s.Name, why)
		}
	}
	ps := e.parents[s.Name]
	if len(ps) == 0 {
		return true, ""
	}
	why := ""
	for _, p := range ps {
		if !e.stageReleased[p.Name] {
			why = fmt.Sprintf("the stage %s that nests its pipeline has not started", p.Name)
			continue
		}
		ok, w := e.chainSatisfied(p)
		if ok {
			return true, ""
		}
		why = w
	}
	return false, why
}

// inSharedGraph: the stage lies (at some depth) in a pipeline that is nested by more than one stage.
func (e *schedEngine) inSharedGraph(name string, depth int) bool {
	ps := e.parents[name]
	if len(ps) >= 2 {
		return true
	}
	if depth > 4 {
		return false
	}
	for _, p := range ps {
		if e.inSharedGraph(p.Name, depth+1) {
			return true
		}
	}
	return false
}

func (e *schedEngine) onEvent(ev *Event) {
	c := e.c
	switch ev.Kind {
	case "run-enter":
		// (not in a pipeline nested by several stages: there two loops evaluate the stage's
		// condition, each once, and a condition that changes between the two is a world the
		// properties do not speak about)
		if !e.inSharedGraph(ev.Subject, 0) && flipCondition(ev.Subject) {
			c.Count("conditions_turned_false_while_the_stage_runs")
		}
		x := e.byName[ev.Subject]
		e.enters[ev.Subject]++
		if e.enters[ev.Subject] > 1 {
			c.Violate("C03", "run-twice", "stage %s was executed %d times", ev.Subject, e.enters[ev.Subject])
		}
		// C01: every dependency, at this level and - through some stage that nests this pipeline -
		// at every enclosing level (a pipeline nested by several stages runs once, for the first of them)
		if ok, why := e.chainSatisfied(x); !ok {
			c.Violate("C01", "start-before-dep", "stage %s started (run-enter seq %d) but %s", x.Name, ev.Seq, why)
		}
		n := 0
		for name := range e.enters {
			if e.inflight(name) {
				n++
			}
		}
		if n > e.maxInflight {
			e.maxInflight = n
		}
	case "release:stage-start":
		e.stageReleased[ev.Subject] = true
	case "run-exit":
		e.exits[ev.Subject] = ev.Detail
		e.exitCount[ev.Subject]++
	case "schedule-return":
		e.returned = true
		e.retErr = ev.Detail
	case "cancel-call":
		e.cancelSeen = true
	case "cancel-return":
		e.cancelRet++
	}
}

// eligibleMissing returns the leaf stages the model calls eligible now that
// are not in flight (neither parked at stage-start nor inside Run).
func (e *schedEngine) eligibleMissing() []string {
	started := map[string]bool{}
	for _, p := range e.c.Parked {
		if p.Kind == "stage-start" || p.Kind == "run" {
			started[p.Key] = true
		}
	}
	var missing []string
	var walk func(g *GraphSpec)
	walk = func(g *GraphSpec) {
		for _, s := range g.Stages {
			if e.model.Status[s.Name] == MSkipped || e.model.Status[s.Name] == MCanceled || e.model.Status[s.Name] == "" {
				continue
			}
			depsOK := true
			for _, dn := range s.Deps {
				if ok, _ := e.depSatisfied(g.Stage(dn)); !ok {
					depsOK = false
				}
			}
			if !depsOK {
				continue
			}
			if s.Nested != nil {
				// the nested stage itself is a goroutine parked at stage-start or already scheduling
				if started[s.Name] {
					continue // its own stage goroutine has not yet been released: inner stages cannot start
				}
				walk(s.Nested)
				continue
			}
			if _, exited := e.exits[s.Name]; exited {
				continue
			}
			if !started[s.Name] && !e.inflight(s.Name) {
				missing = append(missing, s.Name)
			}
		}
	}
	walk(e.g)
	sort.Strings(missing)
	return missing
}

// signature of the scheduler-visible state the controller bases its choices on.
func (e *schedEngine) signature() string {
	var sb strings.Builder
	for _, p := range e.c.Parked {
		sb.WriteString(p.Kind)
		sb.WriteByte(':')
		sb.WriteString(p.Key)
		sb.WriteByte(' ')
	}
	fmt.Fprintf(&sb, "ret=%v cr=%d", e.returned, e.cancelRet)
	return sb.String()
}

// settle lets the polling loop run until the observable state has been stable for more passes
// than the longest propagation chain: which stage a pass visits first is Go map order, so only
// the fixpoint is a deterministic observation. One settle is one batch of the canonical log.
func (e *schedEngine) settle() {
	c := e.c
	if !c.holdBatch {
		c.batch++
		c.holdBatch = true
		defer func() { c.holdBatch = false }()
	}
	need := e.nstages + 3
	sig := e.signature()
	stable := 0
	for i := 0; stable < need && i < 4000; i++ {
		c.Advance(simPause)
		if vp := c.ParkedOf("sched-visit"); len(vp) > 0 {
			// the pass is suspended between two visits: a task completes now, then the pass goes on
			if runs := c.ParkedOf("run"); len(runs) > 0 {
				k := c.Ch.Choose(len(runs), "midpass-complete")
				c.Count("midpass_completions")
				c.Release(runs[k], Action{Kind: "go"})
				c.Quiesce()
			}
			if e.prof.PreemptPct > 0 && stmtPoints > 0 && !e.hasConds && c.Ch.Bool(3, 4, "midpass-statement") {
				// (not in worlds with stage conditions: those are real forks, during which the
				// runtime - not the seed - decides what the other goroutines get done, so that the
				// number of passes before this visit is not a function of the seed)
				// ... and the pass may be stopped again a few statements into this visit (between
				// looking at the dependencies and acting on what was seen)
				vsync.ArmStmt(1+c.Ch.Choose(30, "midpass-stmt-depth"), vp[0].GID)
				c.Count("midpass_statement_preemptions_armed")
			}
			c.Release(vp[0], Action{Kind: "go"})
			c.Quiesce()
			vsync.ArmStmt(0, 0)
		}
		if s2 := e.signature(); s2 != sig {
			sig, stable = s2, 0
		} else {
			stable++
		}
	}
}

func (e *schedEngine) inflightNames() []string {
	var out []string
	for _, p := range e.c.Parked {
		if p.Kind == "stage-start" || p.Kind == "run" {
			out = append(out, p.Kind+":"+p.Key)
		}
	}
	return out
}

// barrier: C04. Advance simulated time until every eligible stage has been
// started; nothing is completed meanwhile.
// resumePreempted lets the goroutines the controller holds at a preemption point go on (before
// anything is measured against the model: the statuses they are about to store are part of it).
func (e *schedEngine) resumePreempted() {
	c := e.c
	for {
		ps := c.ParkedOf("preempt")
		if len(ps) == 0 {
			return
		}
		c.Release(ps[0], Action{Kind: "go"})
		c.Quiesce()
	}
}

func (e *schedEngine) barrier() bool {
	c := e.c
	e.resumePreempted()
	if e.cancelSeen || e.model.Ambiguous || e.g.HasMissingCond() {
		return true
	}
	start := c.Now()
	for {
		miss := e.eligibleMissing()
		if len(miss) == 0 {
			c.Count("c04_barrier_checks")
			if len(c.ParkedOf("stage-start", "run")) >= 2 {
				c.Count("c04_barrier_with_overlap")
			}
			return true
		}
		if e.returned || c.Now()-start > schedLiveBound {
			c.Violate("C04", "eligible-not-started", "eligible stage(s) %v not started within %s simulated (>= 20000 polling passes) while in flight: %v", miss, schedLiveBound, e.inflightNames())
			return false
		}
		e.settle()
		if c.Now()-start > 50*time.Millisecond {
			c.Advance(50 * time.Millisecond) // a scheduler that does not honour the simulator's pause: coarser steps
		}
	}
}

func RunSchedWorld(c *Ctl, prof *SchedProfile, g *GraphSpec, res *RunResult) {
	e := &schedEngine{
		c: c, prof: prof, g: g,
		stages:        map[string]*scheduler.Stage{},
		parents:       map[string][]*StageSpec{},
		graphOf:       map[string]*GraphSpec{},
		byName:        map[string]*StageSpec{},
		enters:        map[string]int{},
		exits:         map[string]string{},
		exitCount:     map[string]int{},
		stageReleased: map[string]bool{},
	}
	e.index(g, nil)
	for _, sp := range e.byName {
		if sp.Cond != "" || sp.Nested != nil {
			// (a nested pipeline means a second polling loop: which of two loops that wake at the
			// same instant looks first is the runtime's choice too)
			e.hasConds = true
		}
	}
	e.nstages = g.CountStages()
	e.model = EvalDag(g, false)
	e.modelAlt = EvalDag(g, true)
	real, err := buildRealGraph(g, e.stages)
	if err != nil {
		// acyclic by construction, yet rejected by the real builder: C05 territory,
		// counted and skipped (a rejected pipeline never runs).
		res.Skipped = "rejected_acyclic: " + err.Error()
		c.Count("rejected_acyclic")
		return
	}
	leaves := map[string]*StageSpec{}
	for _, l := range g.AllLeaves() {
		leaves[l.Name] = l
	}
	stub := &stubRunner{c: c, leaves: leaves, cancelCh: make(chan struct{})}
	c.onEvent = e.onEvent
	scheduler.VerifYield = func(kind string, subj interface{}) {
		st := subj.(*scheduler.Stage)
		name := uniqOf(st)
		switch kind {
		case "stage-start":
			gidStage.Store(curGID(), name)
			c.Yield("stage-start", name, nil)
		case "sched-visit":
			// inactive unless the controller armed a mid-pass park; only visits of the root
			// pipeline's loops count (their sequence is deterministic)
			if atomic.LoadInt32(&e.midArm) > 0 && e.g.Stage(name) != nil {
				if atomic.AddInt32(&e.midArm, -1) == 0 {
					c.Yield("sched-visit", "root", nil)
				}
			}
		}
	}
	defer func() { scheduler.VerifYield = nil }()
	if prof.PreemptPct > 0 && stmtPoints > 0 {
		var occ sync.Map
		vsync.Arm(0, 0)
		vsync.ArmStmt(0, 0)
		vsync.PreemptHook.Store(func(name string) {
			who := "-"
			if v, ok := gidStage.Load(curGID()); ok {
				who = v.(string)
			}
			key := who + "/" + name
			n, _ := occ.LoadOrStore(key, new(int32))
			c.Yield("preempt", fmt.Sprintf("%s#%d", key, atomic.AddInt32(n.(*int32), 1)), nil)
		})
		defer func() {
			vsync.Arm(0, 0)
			vsync.ArmStmt(0, 0)
			vsync.PreemptHook.Store((func(string))(nil))
		}()
	}

	scheduler.VerifPause = simPause
	defer func() { scheduler.VerifPause = 0 }()
	defer installPassOrder(c)()
	sd := scheduler.NewScheduler(stub)
	c.atAbort = append(c.atAbort, sd.Cancel)
	go func() {
		err := sd.Schedule(real)
		d := "nil"
		if err != nil {
			d = "error"
		}
		c.Note("schedule-return", g.Name, d)
	}()
	for i := 0; i < prof.Faults; i++ {
		i := i
		go func() {
			_, a := c.Yield("fault-cancel", fmt.Sprint(i), nil)
			if a.Kind == "abort" {
				return
			}
			c.Note("cancel-call", fmt.Sprint(i), "")
			sd.Cancel()
			c.Note("cancel-return", fmt.Sprint(i), "")
		}()
	}

	idle := time.Duration(0)
	for c.Steps = 0; ; c.Steps++ {
		if c.Steps == 0 {
			c.holdBatch = true
			c.Quiesce()
			e.settle()
			c.holdBatch = false
		} else {
			c.Quiesce()
		}
		if e.returned {
			break
		}
		if vsync.ArmedStmt() > 0 {
			vsync.ArmStmt(0, 0)
		}
		parks := c.ParkedOf("stage-start", "run", "preempt")
		faults := c.ParkedOf("fault-cancel")
		if prof.CancelAt >= 0 && c.Steps == prof.CancelAt && len(faults) > 0 {
			e.fireFault(faults[0], len(parks))
			continue
		}
		if c.Steps >= prof.StepCap {
			// deterministic drain
			if len(parks) > 0 {
				c.batch++
				c.holdBatch = true
				c.Release(parks[0], Action{Kind: "go"})
				c.Quiesce()
				e.settle()
				c.holdBatch = false
				idle = 0
				continue
			}
		}
		if len(parks) == 0 {
			if idle > schedLiveBound {
				c.Violate("C03", "no-return", "Schedule did not return within %s simulated (>= 20000 polling passes) after the last completion; statuses: %s", schedLiveBound, e.statusDump())
				break
			}
			// optionally fire a fault while nothing is in flight
			if len(faults) > 0 && (prof.CancelAt < 0 || e.faultsFired > 0) && prof.WFault > 0 && c.Ch.Bool(prof.WFault, prof.WFault+40, "idle-fault") {
				e.fireFault(faults[0], 0)
				continue
			}
			t0 := c.Now()
			e.settle()
			if idle > 50*time.Millisecond {
				c.Advance(50 * time.Millisecond)
			}
			idle += c.Now() - t0
			continue
		}
		idle = 0
		loopHeld := false
		for _, q := range c.ParkedOf("preempt") {
			if strings.HasPrefix(q.Key, "-/") {
				loopHeld = true // the root loop is held between two statements: a task may complete first
			}
		}
		if prof.AlwaysBar && !loopHeld {
			if !e.barrier() {
				break
			}
			parks = c.ParkedOf("stage-start", "run", "preempt")
		}
		w := make([]int, 0, len(parks)+3)
		for range parks {
			w = append(w, prof.WRelease)
		}
		wMid := 0
		if prof.WMidpass > 0 && len(c.ParkedOf("run")) > 0 && orderedLoops > 0 {
			wMid = prof.WMidpass
		}
		w = append(w, prof.WAdvance, prof.WBarrier)
		if len(faults) > 0 && (prof.CancelAt < 0 || e.faultsFired > 0) {
			w = append(w, prof.WFault)
		} else {
			w = append(w, 0)
		}
		w = append(w, wMid)
		k := c.Ch.Weighted(w, "sched-act")
		if k == len(w)-1 && wMid > 0 {
			// suspend the next pass at its n-th visit and let a running task complete there
			atomic.StoreInt32(&e.midArm, int32(1+c.Ch.Choose(6*len(e.g.Stages), "midpass-visit")))
			e.settle()
			atomic.StoreInt32(&e.midArm, 0)
			continue
		}
		switch {
		case k < len(parks):
			if len(parks) >= 2 {
				c.Count("release_with_overlap")
			}
			if sp := e.byName[parks[k].Key]; parks[k].Kind == "stage-start" && sp != nil && sp.Nested != nil {
				// a nested Schedule runs its first pass at once: observe only the fixpoint
				c.batch++
				c.holdBatch = true
				if prof.PreemptPct > 0 && stmtPoints > 0 && c.Ch.Bool(prof.PreemptPct, 100, "preempt-nested-loop") {
					// the nested loop may be held in the middle of its first pass while other loops run theirs
					vsync.ArmStmt(1+c.Ch.Choose(90, "nested-loop-stmt-depth"), parks[k].GID)
					c.Count("nested_loop_preemptions_armed")
				}
				c.Release(parks[k], Action{Kind: "go"})
				c.Quiesce()
				vsync.ArmStmt(0, 0) // only within the nested loop's first, uninterrupted pass
				e.settle()
				c.holdBatch = false
			} else {
				if prof.PreemptPct > 0 && stmtPoints > 0 && parks[k].Kind == "run" && c.Ch.Bool(prof.PreemptPct, 100, "preempt") {
					vsync.ArmStmt(1+c.Ch.Choose(prof.PreemptDepth, "preempt-stmt-depth"), parks[k].GID)
					c.Count("preemptions_armed")
				}
				c.Release(parks[k], Action{Kind: "go"})
			}
		case k == len(parks):
			e.settle()
		case k == len(parks)+1:
			if !e.barrier() {
				break
			}
		default:
			e.fireFault(faults[0], len(parks))
		}
		if len(c.Viol) > 0 && c.Viol[len(c.Viol)-1].Rule == "eligible-not-started" {
			break
		}
	}

	// Cancel after the run finished (and a second Cancel) must also return.
	if e.returned && prof.CancelAfter {
		for _, f := range c.ParkedOf("fault-cancel") {
			want := e.cancelRet + 1
			e.fireFault(f, 0)
			c.Quiesce()
			e.waitCancelReturn(want)
		}
	}
	if e.cancelSeen {
		e.waitCancelReturn(e.faultsFired)
	}

	e.posthoc(real, res)
	res.NonTrivial = e.maxInflight >= 2 || e.faultsFired > 0
	c.Counters["max_inflight_"+fmt.Sprint(e.maxInflight)]++
}

func (e *schedEngine) fireFault(f *Park, inflight int) {
	e.faultsFired++
	e.c.Count(fmt.Sprintf("fault_cancel_inflight_%d", inflight))
	if e.returned {
		e.c.Count("fault_cancel_after_return")
	}
	e.c.Release(f, Action{Kind: "go"})
}

func (e *schedEngine) waitCancelReturn(want int) {
	c := e.c
	start := c.Now()
	for e.cancelRet < want {
		if c.Now()-start > schedLiveBound {
			c.Violate("C12", "cancel-no-return", "Cancel did not return within %s simulated (%d of %d calls returned)", schedLiveBound, e.cancelRet, want)
			return
		}
		e.settle()
		if c.Now()-start > 50*time.Millisecond {
			c.Advance(50 * time.Millisecond)
		}
	}
}

func (e *schedEngine) statusDump() string {
	var names []string
	for n := range e.stages {
		names = append(names, n)
	}
	sort.Strings(names)
	var parts []string
	for _, n := range names {
		parts = append(parts, n+"="+statusName(e.stages[n].ReadStatus()))
	}
	return strings.Join(parts, " ")
}

func (e *schedEngine) posthoc(real *scheduler.ExecutionGraph, res *RunResult) {
	c := e.c
	cancelled := e.cancelSeen || e.g.HasMissingCond()
	var names []string
	for n := range e.stages {
		names = append(names, n)
	}
	sort.Strings(names)
	// C03: nothing left waiting/running (running never, waiting only when cancelled)
	for _, n := range names {
		if !e.returned {
			break
		}
		st := statusName(e.stages[n].ReadStatus())
		if st == "running" {
			c.Violate("C03", "left-running", "stage %s is still Running after Schedule returned", n)
		}
		if st == MWaiting && !cancelled && e.model.Status[n] != "" && e.modelAlt.Status[n] != "" {
			c.Violate("C03", "left-waiting", "stage %s is still Waiting after Schedule returned (not cancelled)", n)
		}
	}
	for _, n := range names {
		if e.enters[n] > 0 && e.returned {
			if _, ok := e.exits[n]; !ok {
				c.Violate("C03", "return-before-exit", "Schedule returned while the task of stage %s is still executing", n)
			}
		}
	}
	if cancelled {
		c.Count("worlds_cancelled")
		return
	}
	// C02: statuses, run set and error against the model (either reading when ambiguous)
	match := func(m *DagResult) (bool, string) {
		for _, n := range names {
			want := m.Status[n]
			if want == "" {
				want = MWaiting // inside a nested pipeline that never ran
			}
			got := statusName(e.stages[n].ReadStatus())
			if got != want {
				return false, fmt.Sprintf("stage %s: status %s, model %s", n, got, want)
			}
		}
		for _, l := range e.g.AllLeaves() {
			ran := e.enters[l.Name] > 0
			if ran != m.Ran[l.Name] {
				return false, fmt.Sprintf("stage %s: executed=%v, model executed=%v", l.Name, ran, m.Ran[l.Name])
			}
		}
		gotErr := e.retErr != "nil"
		if e.returned && gotErr != m.Err[e.g.Name] {
			return false, fmt.Sprintf("Schedule returned error=%v, model error=%v", gotErr, m.Err[e.g.Name])
		}
		return true, ""
	}
	res.Outcome = e.statusDump() + " err=" + e.retErr
	ok, why := match(e.model)
	if !ok && e.model.Ambiguous {
		c.Count("worlds_ambiguous")
		ok2, _ := match(e.modelAlt)
		ok = ok2
	}
	if !ok {
		c.Violate("C02", "status-vs-model", "%s; world %s; statuses: %s", why, e.g.String(), e.statusDump())
	}
	// C03: exactly once for the model's run set
	for _, l := range e.g.AllLeaves() {
		if e.model.Ran[l.Name] && e.modelAlt.Ran[l.Name] && e.enters[l.Name] == 0 {
			c.Violate("C03", "eligible-not-run", "stage %s was eligible (dependencies satisfied, condition true) but never executed", l.Name)
		}
	}
	_ = real
}

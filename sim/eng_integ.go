package verifsim

import (
	"fmt"
	"os"
	"runtime"
	"sort"
	"strings"
	"sync"
	"sync/atomic"

	"github.com/sirupsen/logrus"
	"github.com/taskctl/taskctl/pkg/verifvsync"
	"time"

	"github.com/taskctl/taskctl/pkg/executor"
	"github.com/taskctl/taskctl/pkg/output"
	"github.com/taskctl/taskctl/pkg/runner"
	"github.com/taskctl/taskctl/pkg/scheduler"
	"github.com/taskctl/taskctl/pkg/task"
	"mvdan.cc/sh/v3/interp"
)

// INTEG engine: real TaskRunner + executor + shell interpreter (+ real
// scheduler for pipeline drivers) over the simulated process layer.

type IntegProfile struct {
	StepCap       int
	WExec         int // weight of releasing an exec step
	WYield        int // weight of releasing a stage-start / run-enter / ctx-up-enter park
	WDriver       int
	WAdvance      int
	UseRunEnter   bool
	UseStageStart bool
	UseCtxUp      bool
	WFault        int
	CancelAt      int    // >=0: fire the first Cancel exactly at this step
	CancelVia     string // "runner" | "scheduler"
	CancelAfter   bool   // fire remaining Cancels after everything returned
	LogYield      bool   // log lines emitted inside Cancel are park points
	WMidpass      int    // percent of steps that arm a park in the middle of the next scheduling pass
	// InternalCancelStage: releasing this (nesting) stage makes the scheduler cancel the run
	// itself (a stage condition inside cannot be evaluated); the release counts as the Cancel call
	InternalCancelStage string
	// OverlapCancels: with two Cancel faults, hold the first inside Cancel and fire the second meanwhile
	OverlapCancels bool
	PreemptPct     int  // percent of releases after which the released goroutine is preempted at one of its next function entries
	PreemptDepth   int  // the preemption lands within this many function entries
	Barrier        bool // C04 at INTEG level: no process completes until every eligible stage has a command in flight
	Checks         map[string]bool
}

type execRec struct {
	Info       *ExecInfo
	StartSeq   int
	EndSeq     int // -1 while running
	Result     string
	CtxDoneSeq int // -1 if never
	Writes     int
}

type driverRec struct {
	Spec      DriverSpec
	Key       string
	Released  bool
	CallSeq   int
	Returned  bool
	ReturnSeq int
	Err       error
}

type integEngine struct {
	c    *Ctl
	prof *IntegProfile
	w    *IntegWorld
	pl   *procLayer

	tasks    map[string]*task.Task
	ctxs     map[string]*runner.ExecutionContext
	ctxName  map[*runner.ExecutionContext]string
	tr       *runner.TaskRunner
	sd       *scheduler.Scheduler
	graphs   map[string]*scheduler.ExecutionGraph
	stages   map[string]*scheduler.Stage
	stageGID map[int64]string // goroutine -> stage it runs
	tmpDir   string
	sink     *recSink
	esink    *recSink

	execs    []*execRec
	execBy   map[string]*execRec
	drivers  []*driverRec
	finished bool
	finSeq   int

	upState         map[string]*int32 // 0 not begun, 1 in progress, 2 done (written by hook goroutines)
	upBeginSeq      map[string]int
	upEndSeq        map[string]int
	cancelPreempted bool  // a Cancel call was held inside Cancel while another one ran (overlapping cancels)
	listenerRel     []int // seq of the releases of the command line's cancel listeners
	cancelCalls     []int // seq of cancel-call events
	cancelRets      []int
	faultsFired     int
	lastRelease     time.Duration
	maxExecPar      int
	writing         atomic.Value // string: exec key whose chunk is being delivered
	limboUsed       int
	builtGraphs     map[*GraphSpec]*scheduler.ExecutionGraph
	cancelGIDs      sync.Map // goroutines that are executing Cancel: their log lines are park points
	cli             bool
	logSeq          int32
	midArm          int32 // >0: suspend a scheduling pass at its n-th visit of a stage
	nstages         int
	runGID          []runRec
}

type runRec struct {
	GID  int64
	Task string
	Seq  int
}

func (e *integEngine) onEvent(ev *Event) {
	switch ev.Kind {
	case "exec-start":
		r := &execRec{Info: ev.Data.(*ExecInfo), StartSeq: ev.Seq, EndSeq: -1, CtxDoneSeq: -1}
		e.execs = append(e.execs, r)
		e.execBy[ev.Subject] = r
		n := 0
		for _, x := range e.execs {
			if x.EndSeq < 0 {
				n++
			}
		}
		if n > e.maxExecPar {
			e.maxExecPar = n
		}
	case "stage-start", "park:stage-start":
		if gid, ok := ev.Data.(int64); ok {
			e.stageGID[gid] = ev.Subject
		}
	case "run-enter", "park:run-enter":
		if gid, ok := ev.Data.(int64); ok {
			e.runGID = append(e.runGID, runRec{GID: gid, Task: ev.Subject, Seq: ev.Seq})
		}
	case "exec-end":
		if r := e.execBy[ev.Subject]; r != nil {
			r.EndSeq = ev.Seq
			r.Result = ev.Detail
		}
	case "exec-ctxdone":
		if r := e.execBy[ev.Subject]; r != nil {
			r.CtxDoneSeq = ev.Seq
		}
	case "exec-write":
		if r := e.execBy[ev.Subject]; r != nil {
			r.Writes++
		}
	case "driver-call":
		for _, d := range e.drivers {
			if d.Key == ev.Subject {
				d.CallSeq = ev.Seq
			}
		}
	case "driver-return":
		for _, d := range e.drivers {
			if d.Key == ev.Subject {
				d.Returned = true
				d.ReturnSeq = ev.Seq
				if ev.Data != nil {
					d.Err, _ = ev.Data.(error)
				}
			}
		}
	case "finish-return":
		e.finished = true
		e.finSeq = ev.Seq
	case "ctx-up-begin":
		e.upBeginSeq[ev.Subject] = ev.Seq
	case "ctx-up-end":
		e.upEndSeq[ev.Subject] = ev.Seq
	case "release:stage-start":
		if e.prof.InternalCancelStage != "" && ev.Subject == e.prof.InternalCancelStage {
			e.cancelCalls = append(e.cancelCalls, ev.Seq)
			e.c.Count("c12_condition_error_cancels")
		}
	case "release:cancel-listener":
		e.listenerRel = append(e.listenerRel, ev.Seq)
	case "cancel-call":
		e.cancelCalls = append(e.cancelCalls, ev.Seq)
	case "cancel-return":
		e.cancelRets = append(e.cancelRets, ev.Seq)
	}
}

func (e *integEngine) allDriversReturned() bool {
	for _, d := range e.drivers {
		if !d.Returned {
			return false
		}
	}
	return true
}

func (e *integEngine) build() {
	w := e.w
	e.tasks = map[string]*task.Task{}
	for _, ts := range w.Tasks {
		e.tasks[ts.Name] = buildRealTask(ts)
	}
	e.ctxs = map[string]*runner.ExecutionContext{}
	e.ctxName = map[*runner.ExecutionContext]string{}
	for _, cs := range w.Contexts {
		x := buildRealContext(cs)
		e.ctxs[cs.Name] = x
		e.ctxName[x] = cs.Name
		var z int32
		e.upState[cs.Name] = &z
	}
}

func (e *integEngine) buildGraph(g *GraphSpec) (*scheduler.ExecutionGraph, error) {
	if e.builtGraphs == nil {
		e.builtGraphs = map[*GraphSpec]*scheduler.ExecutionGraph{}
	}
	if eg, ok := e.builtGraphs[g]; ok {
		return eg, nil
	}
	eg, err := scheduler.NewExecutionGraph()
	if err != nil {
		return nil, err
	}
	e.builtGraphs[g] = eg
	for _, s := range g.Stages {
		st := &scheduler.Stage{Name: s.RealName(), DependsOn: g.RealDeps(s), AllowFailure: s.Allow}
		uniqMu.Lock()
		uniqName[st] = s.Name
		uniqMu.Unlock()
		switch s.Cond {
		case "true":
			st.Condition = "/bin/true"
		case "false":
			st.Condition = falseCondition(s.Name)
		case "missing":
			st.Condition = "/nonexistent/verif-missing-binary"
		}
		if s.Nested != nil {
			inner, err := e.buildGraph(s.Nested)
			if err != nil {
				return nil, err
			}
			st.Pipeline = inner
		} else {
			tn := s.Task
			if tn == "" {
				tn = s.Name
			}
			st.Task = e.tasks[tn]
			if st.Task == nil {
				return nil, fmt.Errorf("verifsim: stage %s refers to unknown task %s", s.Name, tn)
			}
		}
		e.stages[s.Name] = st
		if err := eg.AddStage(st); err != nil {
			return nil, err
		}
	}
	return eg, nil
}

// preemptPark: hook of the preemption points (vsync.Preempt) the build inserted at the entry of
// every function of taskctl's own packages.
func (e *integEngine) preemptPark(name string) {
	who := e.pl.identity(curGID())
	if who == "" {
		who = "-"
	}
	key := who + "/" + name
	e.c.Yield("preempt", fmt.Sprintf("%s#%d", key, e.pl.nextOcc("preempt:"+key)), nil)
}

func (e *integEngine) installHooks() {
	c := e.c
	// the order in which Finish takes the execution contexts down (taskctl: iteration order of a sync.Map)
	atomic.StoreUint64(&vsync.RangeSeed, uint64(1+c.Ch.Choose(1<<16, "finish-order-seed")))
	vsync.ResetPoints()
	vsync.PointHook.Store(func(id string) {
		// a cancel listener of the command line woke up (abort() closed the channel): it acts when
		// the controller says so
		e.c.Yield("cancel-listener", id, nil)
	})
	if e.prof.PreemptPct > 0 && preemptPoints > 0 {
		vsync.Arm(0, 0)
		vsync.ArmStmt(0, 0)
		vsync.PreemptHook.Store(e.preemptPark)
	}
	if e.prof.LogYield {
		logrus.SetLevel(logrus.DebugLevel)
		logYield.Store(e.logPark)
	}
	executor.VerifInterpOptions = []interp.RunnerOption{interp.ExecHandler(e.pl.Handler)}
	scheduler.VerifYield = func(kind string, subj interface{}) {
		if kind == "sched-visit" {
			// inactive unless the controller armed a mid-pass park (top-level pipelines only)
			if atomic.LoadInt32(&e.midArm) > 0 && e.topLevelStage(uniqOf(subj.(*scheduler.Stage))) {
				if atomic.AddInt32(&e.midArm, -1) == 0 {
					c.Yield("sched-visit", "pass", nil)
				}
			}
			return
		}
		if kind == "stage-start" {
			gid := curGID()
			e.pl.ident.Store(gid, uniqOf(subj.(*scheduler.Stage)))
			e.pl.stageIdent.Store(gid, true)
			if e.prof.UseStageStart {
				c.Yield("stage-start", uniqOf(subj.(*scheduler.Stage)), gid)
			} else {
				c.NoteData("stage-start", uniqOf(subj.(*scheduler.Stage)), "", gid)
			}
		}
	}
	runner.VerifYield = func(kind string, subj interface{}) {
		switch kind {
		case "run-enter":
			t := subj.(*task.Task)
			gid := curGID()
			if _, ok := e.pl.stageIdent.Load(gid); !ok {
				e.pl.ident.Store(gid, t.Name) // a goroutine that runs several tasks in sequence (CLI targets)
			}
			if e.prof.UseRunEnter {
				key := t.Name
				if who := e.pl.identity(gid); who != "" && who != t.Name {
					key += "@" + who // a task shared by several stages: one park per stage
				}
				c.Yield("run-enter", key, gid)
			} else {
				c.NoteData("run-enter", t.Name, "", gid)
			}
		case "ctx-up-enter":
			// always a park point while the context is not up yet: a goroutine entering Up()
			// while `up` runs blocks on a mutex, which the controller must know about (limbo)
			name, ok := e.ctxNameOf(subj.(*runner.ExecutionContext))
			if !ok {
				return
			}
			if st := e.upState[name]; st != nil && atomic.LoadInt32(st) == 2 {
				return // already up: nothing to explore
			}
			c.Yield("ctx-up-enter", name+"@"+e.pl.identity(curGID()), name)
		}
	}
	runner.VerifNote = func(kind string, subj interface{}) {
		name, ok := e.ctxNameOf(subj.(*runner.ExecutionContext))
		if !ok {
			return
		}
		if st := e.upState[name]; st != nil {
			if kind == "ctx-up-begin" {
				atomic.StoreInt32(st, 1)
			} else if kind == "ctx-up-end" {
				atomic.StoreInt32(st, 2)
			}
		}
		c.Note(kind, name, "")
	}
}

// ctxNameOf: the world's name of a real context object. In CLI runs the objects are built inside
// the application, so they are recognised by the VS_CTX variable every generated context carries.
func (e *integEngine) ctxNameOf(x *runner.ExecutionContext) (string, bool) {
	if n, ok := e.ctxName[x]; ok {
		return n, true
	}
	if x != nil && x.Env != nil {
		if n, _ := x.Env.Get("VS_CTX").(string); n != "" {
			if _, ok := e.upState[n]; ok {
				return n, true
			}
		}
	}
	return "", false
}

// runCLI: the world is written to a configuration file and run through the real command line
// entry point (flag parsing, config loading, buildTaskRunner, runTarget/runPipeline/runTask).
func (e *integEngine) runCLI(res *RunResult) *integEngine {
	c := e.c
	if CLIHooks.RunApp == nil {
		res.HarnessErr = "CLI hooks not installed"
		return nil
	}
	file, err := e.writeConfig()
	if err != nil {
		res.HarnessErr = "config: " + err.Error()
		return nil
	}
	defer os.RemoveAll(e.tmpDir)
	for _, cs := range e.w.Contexts {
		var z int32
		e.upState[cs.Name] = &z
	}
	for _, g := range e.w.AllGraphs() {
		e.nstages += g.CountStages()
	}
	e.cli = true
	CLIHooks.ResetCancel()
	var abortOnce sync.Once
	abort := func() { abortOnce.Do(CLIHooks.Abort) } // abort() closes a channel: exactly once per process run
	c.atAbort = append(c.atAbort, abort)
	for i := 0; i < e.w.NFaults; i++ {
		i := i
		go func() {
			_, a := c.Yield("fault-cancel", fmt.Sprint(i), nil)
			if a.Kind == "abort" {
				return
			}
			// what the signal handler does (minus os.Exit): close the package-level cancel channel,
			// which wakes the goroutines that cancel the task runner and the scheduler
			c.Note("cancel-call", fmt.Sprint(i), "abort()")
			abort()
			c.Note("cancel-return", fmt.Sprint(i), "")
		}()
	}
	scheduler.VerifPause = simPause
	defer func() { scheduler.VerifPause = 0 }()
	c.onEvent = e.onEvent
	e.installHooks()
	defer e.removeHooks()
	if e.nstages > 0 {
		defer installPassOrder(c)()
	}
	args := append([]string{"taskctl", "-c", file, "--output", "raw"}, e.w.CLIArgs...)
	dr := &driverRec{Spec: DriverSpec{Kind: "cli", Target: strings.Join(e.w.CLIArgs, " ")}, Key: "0:cli", CallSeq: -1}
	e.drivers = append(e.drivers, dr)
	go func() {
		_, a := c.Yield("driver", dr.Key, nil)
		if a.Kind == "abort" {
			return
		}
		c.Note("driver-call", dr.Key, "")
		err := CLIHooks.RunApp(args)
		c.NoteData("driver-return", dr.Key, errString(err), err)
		c.Note("finish-return", "", "")
	}()
	e.loop()
	return e
}

// logPark: inside Cancel every log line is a park point (profile LogYield): other goroutines may
// run between the steps of the cancellation hand-shake.
func (e *integEngine) logPark(msg string) {
	if who, ok := e.cancelGIDs.Load(curGID()); ok {
		k := atomic.AddInt32(&e.logSeq, 1)
		e.c.Yield("log", fmt.Sprintf("cancel%v#%d", who, k), msg)
	}
}

func (e *integEngine) removeHooks() {
	vsync.Arm(0, 0)
	vsync.ArmStmt(0, 0)
	vsync.PreemptHook.Store((func(string))(nil))
	vsync.PointHook.Store((func(string))(nil))
	if e.prof.LogYield {
		logYield.Store((func(string))(nil))
		logrus.SetLevel(logrus.PanicLevel)
	}
	executor.VerifInterpOptions = nil
	scheduler.VerifYield = nil
	runner.VerifYield = nil
	runner.VerifNote = nil
}

func errString(err error) string {
	if err == nil {
		return "nil"
	}
	return "error: " + err.Error()
}

// RunIntegWorld executes one world. Returns false if the world could not be built.
func RunIntegWorld(c *Ctl, prof *IntegProfile, w *IntegWorld, res *RunResult) *integEngine {
	e := &integEngine{
		c: c, prof: prof, w: w,
		execBy:     map[string]*execRec{},
		stages:     map[string]*scheduler.Stage{},
		graphs:     map[string]*scheduler.ExecutionGraph{},
		stageGID:   map[int64]string{},
		upState:    map[string]*int32{},
		upBeginSeq: map[string]int{},
		upEndSeq:   map[string]int{},
	}
	e.writing.Store("")
	e.pl = newProcLayer(c)
	e.pl.envF = envFilter
	if !w.ViaConfig {
		e.build()
	}
	// a write to the sink is attributed to the execution (directly run task / stage) whose
	// goroutine performs it - not to "the chunk being delivered": with preemption points inside
	// the decorators several writers can be in the middle of a Write
	who := func() string { return e.pl.identity(curGID()) }
	e.sink = &recSink{c: c, name: "stdout", cur: who}
	e.esink = &recSink{c: c, name: "stderr", cur: who}
	e.pl.onWrite = func(key string) { e.writing.Store(key) }
	// the output package's globals (close channel, shared cockpit) must belong to this bubble
	output.VerifReset()
	if len(w.CLIArgs) > 0 {
		return e.runCLI(res)
	}
	tr, err := runner.NewTaskRunner(runner.WithContexts(e.ctxs))
	if err != nil {
		res.HarnessErr = "NewTaskRunner: " + err.Error()
		return nil
	}
	tr.Stdout = e.sink
	tr.Stderr = e.esink
	tr.Stdin = strings.NewReader("")
	tr.OutputFormat = w.Format
	e.tr = tr
	if w.ViaConfig {
		if err := e.buildFromConfig(); err != nil {
			if strings.Contains(err.Error(), "cycle detected") {
				// acyclic by construction, yet rejected by the real builder (C05 territory): skipped
				res.Skipped = "rejected_acyclic: " + err.Error()
				c.Count("rejected_acyclic")
				os.RemoveAll(e.tmpDir)
				return nil
			}
			res.HarnessErr = "config: " + err.Error()
			return nil
		}
		tr.SetContexts(e.ctxs)
		defer os.RemoveAll(e.tmpDir)
	} else {
		for _, gs := range w.AllGraphs() {
			g, err := e.buildGraph(gs)
			if err != nil {
				res.Skipped = "rejected_acyclic: " + err.Error()
				c.Count("rejected_acyclic")
				return nil
			}
			e.graphs[gs.Name] = g
		}
	}
	if len(e.graphs) > 0 {
		scheduler.VerifPause = simPause
		e.sd = scheduler.NewScheduler(tr)
		scheduler.VerifPause = 0
		c.atAbort = append(c.atAbort, e.sd.Cancel)
		for _, g := range w.AllGraphs() {
			e.nstages += g.CountStages()
		}
	}
	c.onEvent = e.onEvent
	e.installHooks()
	defer e.removeHooks()
	if len(e.graphs) > 0 {
		defer installPassOrder(c)()
	}

	// drivers
	for i, d := range w.Drivers {
		dr := &driverRec{Spec: d, Key: fmt.Sprintf("%d:%s:%s", i, d.Kind, d.Target), CallSeq: -1}
		e.drivers = append(e.drivers, dr)
		go func(dr *driverRec) {
			_, a := c.Yield("driver", dr.Key, nil)
			if a.Kind == "abort" {
				return
			}
			c.Note("driver-call", dr.Key, "")
			var err error
			switch dr.Spec.Kind {
			case "task":
				err = tr.Run(e.tasks[dr.Spec.Target])
			case "pipeline":
				err = e.sd.Schedule(e.graphs[dr.Spec.Target])
			}
			c.NoteData("driver-return", dr.Key, errString(err), err)
		}(dr)
	}
	go func() {
		_, a := c.Yield("finish", "finish", nil)
		if a.Kind == "abort" {
			return
		}
		c.Note("finish-call", "", "")
		tr.Finish()
		if w.FinishTwice {
			tr.Finish()
		}
		c.Note("finish-return", "", "")
	}()
	for i := 0; i < w.NFaults; i++ {
		i := i
		go func() {
			_, a := c.Yield("fault-cancel", fmt.Sprint(i), nil)
			if a.Kind == "abort" {
				return
			}
			e.cancelGIDs.Store(curGID(), fmt.Sprint(i))
			c.Note("cancel-call", fmt.Sprint(i), "")
			if prof.CancelVia == "scheduler" && e.sd != nil {
				e.sd.Cancel()
			} else {
				tr.Cancel()
			}
			c.Note("cancel-return", fmt.Sprint(i), "")
		}()
	}

	e.loop()
	return e
}

func envFilter(name string) bool {
	return strings.HasPrefix(name, "VS_") || strings.HasSuffix(name, "_OUTPUT") || name == "TASK_NAME" || name == "ARGS" ||
		name == "EventName" || name == "EventPath" || strings.HasPrefix(name, "EXP_") || name == "PWD"
}

// eligible returns the parks the controller may release now.
func (e *integEngine) eligible() []*Park {
	c := e.c
	now := c.Now()
	var out []*Park
	for _, p := range c.Parked {
		switch p.Kind {
		case "exec":
			info := p.Data.(*ExecInfo)
			plan := e.w.PlanFor(info.ID, e.pl.identity(info.GID))
			if info.ChunkPos < len(plan.Chunks) {
				out = append(out, p)
				continue
			}
			if plan.DurMS < 0 {
				continue
			}
			if now-floorTick(info.StartAt) >= time.Duration(plan.DurMS)*time.Millisecond {
				out = append(out, p)
			}
		case "driver":
			if e.w.Sequential {
				// only the first unreleased driver, and only when all earlier ones returned
				ok := true
				for _, d := range e.drivers {
					if d.Key == p.Key {
						break
					}
					if !d.Returned {
						ok = false
						break
					}
				}
				if !ok {
					continue
				}
			}
			out = append(out, p)
		case "finish":
			if e.allDriversReturned() {
				out = append(out, p)
			}
		case "fault-cancel", "sched-visit":
			// handled separately
		default:
			out = append(out, p)
		}
	}
	return out
}

func floorTick(t time.Duration) time.Duration { return t - t%simTick }

func ceilTick(t time.Duration) time.Duration {
	if t%simTick == 0 {
		return t
	}
	return t - t%simTick + simTick
}

// nextWake: how far to advance the clock when nothing can be released now: to the next instant
// (on the controller's tick grid) at which a parked process may complete or a deadline expires.
func (e *integEngine) nextWake() time.Duration {
	c := e.c
	now := c.Now()
	best := time.Duration(0)
	consider := func(at time.Duration) {
		d := ceilTick(at) - now
		if d > 0 && (best == 0 || d < best) {
			best = d
		}
	}
	for _, p := range c.Parked {
		if p.Kind != "exec" {
			continue
		}
		info := p.Data.(*ExecInfo)
		plan := e.w.PlanFor(info.ID, e.pl.identity(info.GID))
		if plan.DurMS > 0 {
			consider(floorTick(info.StartAt) + time.Duration(plan.DurMS)*time.Millisecond)
		}
		if info.HasTimeout && info.Deadline-now <= 5*time.Second {
			consider(info.Deadline) // far deadlines (timeouts that never expire in this world) are not waited for
		}
	}
	if best == 0 {
		// nothing known to wait for (a process being killed, a loop that is about to return):
		// step on the grid, coarser the longer nothing happens
		best = ceilTick(now+1) - now
		if idle := now - e.lastRelease; idle > time.Second {
			best = ceilTick(now+idle/4) - now
		}
	}
	return best
}

// schedActive: a pipeline driver has been started and has not returned.
func (e *integEngine) schedActive() bool {
	for _, d := range e.drivers {
		if d.Spec.Kind == "cli" && d.Released && !d.Returned && e.nstages > 0 {
			return true
		}
		if d.Spec.Kind == "pipeline" && d.Released && !d.Returned {
			return true
		}
	}
	return false
}

func (e *integEngine) signature() string {
	var sb strings.Builder
	for _, p := range e.c.Parked {
		sb.WriteString(p.Kind)
		sb.WriteByte(':')
		sb.WriteString(p.Key)
		sb.WriteByte(' ')
	}
	for _, d := range e.drivers {
		if d.Returned {
			sb.WriteString("ret:" + d.Key + " ")
		}
	}
	fmt.Fprintf(&sb, "cr=%d ev=%d", len(e.cancelRets), len(e.execs))
	return sb.String()
}

// observe: quiescence, then - while a scheduler is polling - let its loop reach a fixpoint (which
// stage a pass visits first is Go map order), then return to the controller's tick grid. All of it
// is one batch of the canonical log.
func (e *integEngine) observe() {
	c := e.c
	c.Quiesce()
	c.holdBatch = true
	for round := 0; round < 50; round++ {
		if e.schedActive() {
			need := e.nstages + 3
			sig := e.signature()
			stable := 0
			for i := 0; stable < need && i < 400; i++ {
				c.Advance(simPause)
				if vp := c.ParkedOf("sched-visit"); len(vp) > 0 {
					// the pass is suspended between two visits: one goroutine that is ready to go
					// (a launched stage, a process about to complete) runs now, then the pass goes on
					for n := 1 + c.Ch.Choose(3, "midpass-how-many"); n > 0; n-- {
						var ready []*Park
						for _, q := range e.eligible() {
							if q.Kind != "driver" && q.Kind != "finish" && q.Kind != "sched-visit" {
								ready = append(ready, q)
							}
						}
						if len(ready) == 0 {
							break
						}
						c.Count("midpass_interleavings")
						e.releasePark(ready[c.Ch.Choose(len(ready), "midpass-who")])
						c.Quiesce()
					}
					for _, q := range c.ParkedOf("sched-visit") {
						c.Release(q, Action{Kind: "go"})
					}
					c.Quiesce()
				}
				if s2 := e.signature(); s2 != sig {
					sig, stable = s2, 0
				} else {
					stable++
				}
			}
		}
		now := c.Now()
		if now%simTick == 0 {
			break
		}
		// back to the controller's tick grid; if anything happened on the way (a killed process
		// finally died, a deadline expired) the polling loop gets to settle again
		before := e.reportsSeen()
		c.Advance(ceilTick(now) - now)
		if e.reportsSeen() == before || !e.schedActive() {
			break
		}
		c.Advance(simPause / 2) // off the grid, so that the settle above runs once more
	}
	c.holdBatch = false
}

func (e *integEngine) reportsSeen() int { return e.c.Reported }

func (e *integEngine) releasePark(p *Park) {
	c := e.c
	e.lastRelease = c.Now()
	switch p.Kind {
	case "exec":
		info := p.Data.(*ExecInfo)
		plan := e.w.PlanFor(info.ID, e.pl.identity(info.GID))
		if info.ChunkPos < len(plan.Chunks) {
			ch := plan.Chunks[info.ChunkPos]
			info.ChunkPos++
			c.Release(p, Action{Kind: "write", Stream: ch.Stream, Data: ch.Data})
			return
		}
		if plan.NotFound {
			c.Count("fault_exec_not_found")
			c.Release(p, Action{Kind: "notfound"})
			return
		}
		if plan.Exit != 0 {
			c.Count("fault_exit_nonzero")
		}
		c.Release(p, Action{Kind: "exit", Code: plan.Exit})
	case "exec-dying":
		info := p.Data.(*ExecInfo)
		plan := e.w.PlanFor(info.ID, e.pl.identity(info.GID))
		switch plan.Intr {
		case "later":
			c.Count("fault_kill_delay")
			c.Release(p, Action{Kind: "dielater", D: time.Duration(plan.IntrMS) * time.Millisecond})
		case "exit":
			c.Count("fault_exit_on_interrupt")
			c.Release(p, Action{Kind: "exit", Code: plan.IntrCode})
		default:
			c.Count("interrupted_die_at_once")
			c.Release(p, Action{Kind: "die"})
		}
	case "driver":
		for _, d := range e.drivers {
			if d.Key == p.Key {
				d.Released = true
			}
		}
		c.Release(p, Action{Kind: "go"})
	case "ctx-up-enter":
		st := e.upState[p.Data.(string)]
		if st != nil && atomic.LoadInt32(st) == 1 {
			c.Count("released_into_up_while_up_running")
			if !vsyncActive {
				// real sync.Once: a waiter blocks on a mutex, which freezes the bubble
				e.limbo(p)
				return
			}
		}
		c.Release(p, Action{Kind: "go"})
	default:
		c.Release(p, Action{Kind: "go"})
	}
}

// limbo: the context's `up` is in progress (its goroutine is parked inside an
// up command). Releasing more goroutines into Up() makes them block on the
// sync.Once mutex, which is not a durable block, so synctest.Wait cannot be
// used until `up` has finished. The controller therefore fast-forwards the
// up sequence: only reports of the up goroutine may arrive until ctx-up-end;
// anything else means a task got past Up() while `up` was still running.
func (e *integEngine) limbo(first *Park) {
	c := e.c
	name := first.Data.(string)
	var group []*Park
	for _, p := range c.ParkedOf("ctx-up-enter") {
		if p.Data.(string) == name {
			group = append(group, p)
		}
	}
	k := 1
	if len(group) > 1 {
		k = 1 + c.Ch.Choose(len(group), "limbo-how-many")
	}
	c.holdBatch = true
	c.batch++
	for i := 0; i < k; i++ {
		c.Release(group[i], Action{Kind: "go"})
	}
	e.limboUsed++
	c.Count("limbo_entries")
	c.Counters["limbo_goroutines"] += k
	// find the up exec that is parked
	release := func() bool {
		for _, p := range c.ParkedOf("exec") {
			info := p.Data.(*ExecInfo)
			if info.Owner == "ctx:"+name && info.Block == "up" {
				e.releasePark(p)
				return true
			}
		}
		return false
	}
	// Let the released goroutines run until they block: on the Once's mutex if Up() is correct, or
	// at their next park / report if they got past Up(). Every other goroutine of the world is
	// parked, so whatever is reported now comes from them. (synctest.Wait cannot be used: a
	// goroutine blocked on a mutex is not durably blocked.)
	for i := 0; i < 100; i++ {
		runtime.Gosched()
	}
	early := []report{}
drainEarly:
	for {
		select {
		case r := <-c.reports:
			early = append(early, r)
		default:
			break drainEarly
		}
	}
	if !release() {
		// up in progress but no up command parked: cannot happen in a quiescent state
		panic("verifsim: limbo without a parked up command for " + name)
	}
	for {
		var r report
		if len(early) > 0 {
			r, early = early[0], early[1:]
		} else {
			r = <-c.reports
		}
		c.Reported++
		switch {
		case r.park != nil:
			p := r.park
			ev := c.addEventAt(&Event{Kind: "park:" + p.Kind, Subject: p.Key, Data: p.Data}, r.at)
			p.Seq, p.At = ev.Seq, ev.At
			c.Parked = append(c.Parked, p)
			info, _ := p.Data.(*ExecInfo)
			if p.Kind == "exec" && info != nil && info.Owner == "ctx:"+name && info.Block == "up" {
				e.releasePark(p)
				continue
			}
			c.Violate("C14", "past-up-while-up-running", "a goroutine released into Up() of context %s while its up commands were still running proceeded to %s %s before they finished", name, p.Kind, p.Key)
		case r.ev != nil:
			ev := c.addEventAt(r.ev, r.at)
			if ev.Kind == "ctx-up-end" && ev.Subject == name {
				goto done
			}
			if (ev.Kind == "exec-start" || ev.Kind == "exec-end" || ev.Kind == "exec-write" || ev.Kind == "exec-wrote") && strings.HasPrefix(ev.Subject, "ctx:"+name+"/up/") {
				continue
			}
			if ev.Kind == "ctx-up-begin" {
				continue
			}
			c.Violate("C14", "past-up-while-up-running", "event %s %s arrived from a goroutine that was released into Up() of context %s while its up commands were still running", ev.Kind, ev.Subject, name)
		case r.retract != nil:
			c.addEvent(&Event{Kind: "retract:" + r.retract.Kind, Subject: r.retract.Key})
		}
	}
done:
	c.holdBatch = false
	sort.SliceStable(c.Parked, func(i, j int) bool {
		a, b := c.Parked[i], c.Parked[j]
		if a.Kind != b.Kind {
			return a.Kind < b.Kind
		}
		return a.Key < b.Key
	})
}

// barrier (C04 with the real runner): let every goroutine that is merely waiting to be scheduled
// proceed, then require that each stage whose dependencies are satisfied has a command in flight
// before any process is completed. Eligibility is read from the stage statuses; what counts as
// "in flight" is the simulator's own observation (a parked process of that stage's goroutine).
func (e *integEngine) barrier() bool {
	c := e.c
	start := c.Now()
	for {
		// scheduling-only parks are released eagerly, in canonical order
		for {
			var p *Park
			for _, q := range e.eligible() {
				if q.Kind == "stage-start" || q.Kind == "run-enter" || q.Kind == "ctx-up-enter" || q.Kind == "driver" || q.Kind == "preempt" {
					p = q
					break
				}
			}
			if p == nil {
				break
			}
			e.releasePark(p)
			e.observe()
		}
		inflight := map[string]bool{}
		for _, p := range c.ParkedOf("exec", "exec-dying") {
			info := p.Data.(*ExecInfo)
			inflight[e.pl.identity(info.GID)] = true
		}
		var missing []string
		for _, g := range e.w.AllGraphs() {
			if !e.pipelineStarted(g.Name) {
				continue
			}
			for _, s := range g.Stages {
				st := e.stages[s.Name]
				if st == nil || s.Nested != nil || s.Cond != "" {
					continue
				}
				cur := statusName(st.ReadStatus())
				if cur != MWaiting && cur != "running" {
					continue
				}
				ok := true
				for _, dn := range s.Deps {
					d := g.Stage(dn)
					ds := statusName(e.stages[dn].ReadStatus())
					if !(ds == MDone || ds == MSkipped || (ds == MError && d.Allow)) {
						ok = false
					}
				}
				if ok && !inflight[s.Name] {
					missing = append(missing, s.Name)
				}
			}
		}
		if len(missing) == 0 {
			c.Count("c04i_barrier_checks")
			if len(inflight) >= 2 {
				c.Count("c04i_barrier_with_overlap")
			}
			return true
		}
		if e.finished || c.Now()-start > 2*time.Second {
			var fl []string
			for k := range inflight {
				fl = append(fl, k)
			}
			sort.Strings(fl)
			sort.Strings(missing)
			c.Violate("C04", "eligible-no-command-in-flight", "stage(s) %v have all dependencies satisfied but no command of theirs started within 2s simulated while %v have commands in flight (none was completed meanwhile)", missing, fl)
			return false
		}
		c.Sleep(simTick)
		e.observe()
	}
}

func (e *integEngine) topLevelStage(name string) bool {
	for _, g := range e.w.AllGraphs() {
		if g.Stage(name) != nil {
			return true
		}
	}
	return false
}

func (e *integEngine) pipelineStarted(name string) bool {
	for _, d := range e.drivers {
		if d.Spec.Kind == "pipeline" && d.Spec.Target == name && d.Released && !d.Returned {
			return true
		}
	}
	return false
}

func (e *integEngine) fireFault(f *Park) {
	still := false
	for _, q := range e.c.ParkedOf("fault-cancel") {
		if q == f {
			still = true
		}
	}
	if !still {
		return // already fired together with an earlier one (overlapping cancels)
	}
	e.faultsFired++
	n := 0
	for _, x := range e.execs {
		if x.EndSeq < 0 {
			n++
		}
	}
	e.c.Count(fmt.Sprintf("fault_cancel_with_%d_execs_running", n))
	if e.allDriversReturned() {
		e.c.Count("fault_cancel_after_all_returned")
	}
	released := false
	for _, d := range e.drivers {
		if d.Released {
			released = true
		}
	}
	if !released {
		e.c.Count("fault_cancel_before_run")
	}
	if e.prof.OverlapCancels && stmtPoints > 0 && e.faultsFired == 1 && len(e.c.ParkedOf("fault-cancel")) >= 2 {
		// two Cancel calls that overlap: the first is held before one of its first statements
		// inside Cancel, the second is fired while it is held. (The instant at which "the"
		// cancellation happened is then not the first call: the rule about commands running at
		// that instant is not applied to these runs.)
		e.cancelPreempted = true
		if e.prof.PreemptPct == 0 {
			vsync.PreemptHook.Store(e.preemptPark)
		}
		vsync.ArmStmt(1+e.c.Ch.Choose(6, "cancel-preempt-depth"), f.GID)
		e.c.Count("c12_overlapping_cancels_armed")
		e.c.Release(f, Action{Kind: "go"})
		e.c.Quiesce()
		vsync.ArmStmt(0, 0)
		if rest := e.c.ParkedOf("fault-cancel"); len(rest) > 0 {
			e.faultsFired++
			e.c.Release(rest[0], Action{Kind: "go"})
		}
		return
	}
	e.c.Release(f, Action{Kind: "go"})
}

func (e *integEngine) loop() {
	c := e.c
	prof := e.prof
	for c.Steps = 0; ; c.Steps++ {
		e.observe()
		if vsync.Armed() > 0 {
			vsync.Arm(0, 0) // the countdown did not run out before everything blocked again
		}
		if vsync.ArmedStmt() > 0 {
			vsync.ArmStmt(0, 0)
		}
		if e.finished {
			break
		}
		if prof.Barrier && !e.barrier() {
			break
		}
		faults := c.ParkedOf("fault-cancel")
		if prof.CancelAt >= 0 && c.Steps == prof.CancelAt && len(faults) > 0 {
			e.fireFault(faults[0])
			continue
		}
		if ls := c.ParkedOf("cancel-listener"); len(ls) > 0 && c.Ch.Bool(3, 4, "listener-acts-now") {
			// mostly the listeners act as soon as they were woken (in either order); otherwise
			// they compete with everything else that can move
			e.releasePark(ls[c.Ch.Choose(len(ls), "which-listener")])
			continue
		}
		parks := e.eligible()
		if c.Steps >= prof.StepCap {
			// deterministic drain: release anything that can move, including stalled processes
			if len(parks) == 0 {
				for _, p := range c.ParkedOf("exec") {
					parks = append(parks, p)
					break
				}
			}
			if len(parks) > 0 {
				e.releasePark(parks[0])
				continue
			}
		}
		if len(parks) == 0 {
			if c.Now()-e.lastRelease > liveBound {
				e.stuck()
				break
			}
			if len(faults) > 0 && (prof.CancelAt < 0 || e.faultsFired > 0) && prof.WFault > 0 && c.Ch.Bool(prof.WFault, prof.WFault+30, "idle-fault") {
				e.fireFault(faults[0])
				continue
			}
			c.Sleep(e.nextWake())
			continue
		}
		w := make([]int, 0, len(parks)+2)
		for _, p := range parks {
			switch p.Kind {
			case "exec", "exec-dying":
				w = append(w, prof.WExec)
			case "driver", "finish":
				w = append(w, prof.WDriver)
			case "preempt":
				// a goroutine held in the middle of something: the others go first, mostly - what
				// they do while it is held is the point
				w = append(w, 1+prof.WYield/5)
			default:
				w = append(w, prof.WYield)
			}
		}
		if len(c.ParkedOf("exec-dying")) > 0 {
			// an interrupted process dies (or is killed) within bounded time of the signal:
			// simulated time does not pass while its fate is undecided
			w = append(w, 0)
		} else {
			w = append(w, prof.WAdvance)
		}
		if prof.WMidpass > 0 && e.schedActive() && orderedLoops > 0 && c.Ch.Bool(prof.WMidpass, 100, "arm-midpass") {
			atomic.StoreInt32(&e.midArm, int32(1+c.Ch.Choose(6*(e.nstages+1), "midpass-visit")))
			c.Count("midpass_armed")
		}
		if len(faults) > 0 && (prof.CancelAt < 0 || e.faultsFired > 0) {
			w = append(w, prof.WFault)
		} else {
			w = append(w, 0)
		}
		k := c.Ch.Weighted(w, "integ-act")
		switch {
		case k < len(parks):
			downExec := false
			if info, ok := parks[k].Data.(*ExecInfo); ok && info != nil && info.Block == "down" {
				// (Finish takes the contexts down in the iteration order of a sync.Map: where its
				// goroutine would be stopped is not a function of the seed)
				downExec = true
			}
			if prof.PreemptPct > 0 && preemptPoints > 0 && parks[k].Kind != "finish" && !downExec && c.Ch.Bool(prof.PreemptPct, 100, "preempt") {
				// the goroutine released now is taken off the processor again at one of its next
				// function entries inside taskctl's code
				if stmtPoints > 0 && c.Ch.Bool(1, 2, "preempt-at-statement") {
					// ... or before one of its next statements (windows a few statements wide)
					// (near or far: loops over maps make the way to a given statement long)
					span := prof.PreemptDepth * 5
					if c.Ch.Bool(1, 3, "preempt-far") {
						span = prof.PreemptDepth * 30
					}
					vsync.ArmStmt(1+c.Ch.Choose(span, "preempt-stmt-depth"), parks[k].GID)
					c.Count("preemptions_armed_at_statements")
				} else {
					vsync.Arm(1+c.Ch.Choose(prof.PreemptDepth, "preempt-depth"), parks[k].GID)
				}
				c.Count("preemptions_armed")
			}
			e.releasePark(parks[k])
		case k == len(parks):
			c.Sleep(e.nextWake())
		default:
			e.fireFault(faults[0])
		}
	}
	if e.finished && prof.CancelAfter {
		for _, f := range c.ParkedOf("fault-cancel") {
			e.fireFault(f)
			e.observe()
		}
	}
	// every Cancel call must return (bounded)
	start := c.Now()
	for len(e.cancelRets) < e.faultsFired {
		if c.Now()-start > liveBound {
			c.Violate("C12", "cancel-no-return", "Cancel did not return within %s simulated after everything else had finished (%d of %d calls returned)", liveBound, len(e.cancelRets), e.faultsFired)
			break
		}
		// release whatever still moves
		if el := e.eligible(); len(el) > 0 {
			e.releasePark(el[0])
			e.observe()
			continue
		}
		c.Sleep(e.nextWake())
		e.observe()
	}
}

func (e *integEngine) stuck() {
	c := e.c
	var parked []string
	for _, p := range c.Parked {
		parked = append(parked, p.Kind+":"+p.Key)
	}
	var pend []string
	for _, d := range e.drivers {
		if d.Released && !d.Returned {
			pend = append(pend, d.Key)
		}
	}
	msg := fmt.Sprintf("no progress for %s simulated: drivers not returned %v, parked %v", liveBound, pend, parked)
	if lw := lockWaiters(); lw != "" {
		msg += "; goroutines waiting for a lock: " + lw
	}
	if len(e.cancelCalls) > 0 {
		c.Violate("C12", "no-return-after-cancel", "%s (Cancel called %d, returned %d)", msg, len(e.cancelCalls), len(e.cancelRets))
	}
	if e.prof.Checks["C19"] {
		c.Violate("C19", "deadlock", "the run deadlocked under output format %s: %s", e.w.Format, msg)
	}
	c.Violate("C03", "no-return", "%s", msg)
	c.Violate("LIVE", "stuck", "%s", msg)
}

// lockWaiters: for every goroutine blocked in a (rewritten) lock, the chain of taskctl / spinner
// functions it is in - the explanation of a deadlock. Diagnostic text only.
func lockWaiters() string {
	buf := make([]byte, 1<<20)
	n := runtime.Stack(buf, true)
	var out []string
	for _, g := range strings.Split(string(buf[:n]), "\n\n") {
		if !strings.Contains(g, "verifvsync.(*Mutex).Lock") && !strings.Contains(g, "verifvsync.(*RWMutex).Lock") && !strings.Contains(g, "verifvsync.(*RWMutex).RLock") {
			continue
		}
		var chain []string
		for _, l := range strings.Split(g, "\n") {
			if strings.HasPrefix(l, "\t") || strings.HasPrefix(l, "goroutine ") || strings.HasPrefix(l, "created by") {
				continue
			}
			if strings.Contains(l, "verifvsync.") || strings.Contains(l, "verifsim.") {
				continue
			}
			if i := strings.LastIndexByte(l, '('); i > 0 {
				l = l[:i]
			}
			l = strings.TrimPrefix(l, "github.com/taskctl/taskctl/")
			l = strings.TrimPrefix(l, "github.com/briandowns/")
			chain = append(chain, l)
			if len(chain) == 4 {
				break
			}
		}
		out = append(out, strings.Join(chain, " <- "))
	}
	sort.Strings(out)
	return strings.Join(out, " | ")
}

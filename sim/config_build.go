package verifsim

import (
	"encoding/json"
	"fmt"
	"io/ioutil"
	"os"
	"path/filepath"
	"sort"
	"strings"
	"sync"

	"github.com/taskctl/taskctl/internal/config"
	"github.com/taskctl/taskctl/pkg/runner"
)

// Config-built worlds: the world is serialised to a configuration file and
// built by the real loader / builders (internal/config).

func (w *IntegWorld) ConfigMap() map[string]interface{} {
	tasks := map[string]interface{}{}
	for _, t := range w.Tasks {
		rt := buildRealTask(t)
		m := map[string]interface{}{"command": rt.Commands}
		if len(rt.Before) > 0 {
			m["before"] = rt.Before
		}
		if len(rt.After) > 0 {
			m["after"] = rt.After
		}
		if rt.Condition != "" {
			m["condition"] = rt.Condition
		}
		if len(rt.Variations) > 0 {
			m["variations"] = rt.Variations
		}
		if t.Allow {
			m["allow_failure"] = true
		}
		if t.TimeoutMS > 0 {
			m["timeout"] = fmt.Sprintf("%dms", t.TimeoutMS)
			if t.TimeoutMS%100 == 0 && (t.TimeoutMS/100)%2 == 1 {
				// the same duration in fractional notation (500ms = "0.5s", 1300ms = "1.3s")
				m["timeout"] = fmt.Sprintf("%d.%ds", t.TimeoutMS/1000, (t.TimeoutMS%1000)/100)
			}
		}
		if t.Context != "" {
			m["context"] = t.Context
		}
		if t.ExportAs != "" {
			m["exportas"] = t.ExportAs
		}
		if t.Interactive {
			m["interactive"] = true
		}
		if len(t.Env) > 0 {
			m["env"] = t.Env
		}
		if len(t.Vars) > 0 {
			m["variables"] = t.Vars
		}
		if t.Dir != "" {
			m["dir"] = t.Dir
		}
		tasks[t.Name] = m
	}
	pipelines := map[string]interface{}{}
	for _, g := range w.AllGraphs() {
		var stages []interface{}
		for _, s := range g.Stages {
			m := map[string]interface{}{"name": s.Name}
			if s.Nested != nil {
				m["pipeline"] = s.Nested.Name
			} else if s.Task != "" {
				m["task"] = s.Task
			} else {
				m["task"] = s.Name
			}
			if tn, _ := m["task"].(string); tn == s.Name && byteSum(s.Name)%2 == 0 {
				// a stage without a name of its own is called after its task
				delete(m, "name")
			}
			if len(s.Deps) > 0 {
				m["depends_on"] = s.Deps
			}
			if s.Allow {
				m["allow_failure"] = true
			}
			switch s.Cond {
			case "true":
				m["condition"] = "/bin/true"
			case "false":
				m["condition"] = falseCondition(s.Name)
			case "missing":
				m["condition"] = "/nonexistent/verif-missing-binary"
			}
			if len(s.Env) > 0 {
				m["env"] = s.Env
			}
			if len(s.Vars) > 0 {
				m["variables"] = s.Vars
			}
			if s.Dir != "" {
				m["dir"] = s.Dir
			}
			stages = append(stages, m)
		}
		pipelines[g.Name] = stages
	}
	contexts := map[string]interface{}{}
	for _, cs := range w.Contexts {
		mk := func(block string, n int) []string {
			out := []string{}
			for i := 0; i < n; i++ {
				out = append(out, cmdText("ctx:"+cs.Name, block, i))
			}
			return out
		}
		contexts[cs.Name] = map[string]interface{}{
			"up": mk("up", cs.NUp), "down": mk("down", cs.NDown), "before": mk("before", cs.NBefore), "after": mk("after", cs.NAfter),
			"env": map[string]string{"VS_CTX": cs.Name},
		}
		if len(cs.Vars) > 0 {
			contexts[cs.Name].(map[string]interface{})["variables"] = cs.Vars
		}
	}
	out := map[string]interface{}{"tasks": tasks}
	if len(pipelines) > 0 {
		out["pipelines"] = pipelines
	}
	if len(contexts) > 0 {
		out["contexts"] = contexts
	}
	return out
}

func scratchRoot() string {
	return filepath.Join("/var/tmp", fmt.Sprintf("vsim-%d", os.Getpid()))
}

func byteSum(s string) int {
	n := 0
	for i := 0; i < len(s); i++ {
		n += int(s[i])
	}
	return n
}

var exit2Once sync.Once

// falseCondition: an executable that says "no" for a stage condition - /bin/false for half of the
// stages, for the others a script that exits with status 2 (any non-zero status means no).
func falseCondition(stage string) string {
	sum := 0
	for i := 0; i < len(stage); i++ {
		sum += int(stage[i])
	}
	if sum%2 == 1 {
		return "/bin/false"
	}
	p := filepath.Join(scratchRoot(), "cond-exit2")
	exit2Once.Do(func() {
		os.MkdirAll(scratchRoot(), 0o755)
		os.WriteFile(p, []byte("#!/bin/sh\nexit 2\n"), 0o755)
	})
	if _, err := os.Stat(p); err != nil {
		return "/bin/false"
	}
	return p
}

func (e *integEngine) writeConfig() (string, error) {
	dir := filepath.Join(scratchRoot(), fmt.Sprintf("w%d", len(e.c.Ch.Trace)))
	if err := os.MkdirAll(dir, 0o755); err != nil {
		return "", err
	}
	e.tmpDir = dir
	b, err := json.MarshalIndent(e.w.ConfigMap(), "", " ")
	if err != nil {
		return "", err
	}
	file := filepath.Join(dir, "tasks.json")
	if err := ioutil.WriteFile(file, b, 0o644); err != nil {
		return "", err
	}
	return file, nil
}

func (e *integEngine) buildFromConfig() error {
	file, err := e.writeConfig()
	if err != nil {
		return err
	}
	cl := config.NewConfigLoader(config.NewConfig())
	cfg, err := cl.Load(file)
	if err != nil {
		return err
	}
	e.tasks = cfg.Tasks
	e.ctxs = cfg.Contexts
	e.ctxName = map[*runner.ExecutionContext]string{}
	for n, x := range cfg.Contexts {
		e.ctxName[x] = n
		var z int32
		e.upState[n] = &z
	}
	for _, g := range e.w.AllGraphs() {
		rg := cfg.Pipelines[g.Name]
		if rg == nil {
			return fmt.Errorf("pipeline %s missing after load", g.Name)
		}
		e.graphs[g.Name] = rg
		for n, st := range rg.Nodes() {
			e.stages[n] = st
		}
	}
	return nil
}

// ---- C08: per-stage overrides ----

func sortedKeys(m map[string]string) []string {
	var ks []string
	for k := range m {
		ks = append(ks, k)
	}
	sort.Strings(ks)
	return ks
}

func (e *integEngine) checkC08() {
	c := e.c
	cwd, _ := os.Getwd()
	for _, r := range e.execs {
		t := e.w.Task(r.Info.Owner)
		if t == nil || len(t.Env)+len(t.Vars) == 0 {
			continue
		}
		var st *StageSpec
		where := "direct run of " + t.Name
		if sn, ok := e.stageGID[r.Info.GID]; ok {
			for _, g := range e.w.AllGraphs() {
				if s := g.Stage(sn); s != nil {
					st = s
					where = "stage " + sn + " of " + g.Name
				}
			}
		}
		if r.Info.Block == "cond" {
			// (taskctl evaluates a task's condition with the runner's environment and variables
			// only; what is the stage's is the directory)
			wantDir := t.Dir
			if st != nil && st.Dir != "" {
				wantDir = st.Dir
			}
			if wantDir == "" {
				wantDir = cwd
			}
			if r.Info.Dir != wantDir {
				c.Violate("C08", "dir-override", "%s, condition %s: evaluated in %q, want %q", where, r.Info.Key, r.Info.Dir, wantDir)
				return
			}
			c.Count("c08_conditions_checked")
			continue
		}
		if pwd, ok := r.Info.Env["PWD"]; ok && pwd != os.Getenv("PWD") {
			// (taskctl does not export the working directory as PWD: every process sees taskctl's own)
			for _, g := range e.w.AllGraphs() {
				for _, o := range g.Stages {
					if o != st && o.Dir != "" && strings.HasPrefix(pwd, o.Dir[:strings.LastIndex(o.Dir, "/")+1]) && pwd != r.Info.Dir {
						c.Violate("C08", "dir-override", "%s, command %s: environment variable PWD=%q - the directory given on stage %s", where, r.Info.Key, pwd, o.Name)
						return
					}
				}
			}
		}
		leakFrom := func(name, val string, env bool) string {
			for _, g := range e.w.AllGraphs() {
				for _, o := range g.Stages {
					if o == st {
						continue
					}
					m := o.Vars
					if env {
						m = o.Env
					}
					if v, ok := m[name]; ok && v == val {
						return " (the value of stage " + o.Name + ")"
					}
				}
			}
			return ""
		}
		for _, name := range sortedKeys(t.Env) {
			want := t.Env[name]
			if st != nil {
				if v, ok := st.Env[name]; ok {
					want = v
				}
			}
			got, present := r.Info.Env[name]
			if !present || got != want {
				c.Violate("C08", "env-override", "%s, command %s: env %s=%q, want %q%s", where, r.Info.Key, name, got, want, leakFrom(name, got, true))
				return
			}
		}
		for _, name := range sortedKeys(t.VarExtra) {
			if got := r.Info.Env[name]; r.Info.Block == "cmd" && got != t.VarExtra[name] {
				c.Violate("C08", "variation-value", "%s, command %s: variation value %s=%q, configured %q (it must not depend on who ran the task before)", where, r.Info.Key, name, got, t.VarExtra[name])
				return
			}
		}
		// names that only some stage defines
		for _, g := range e.w.AllGraphs() {
			for _, o := range g.Stages {
				for _, name := range sortedKeys(o.Env) {
					if _, own := t.Env[name]; own {
						continue
					}
					got, present := r.Info.Env[name]
					if o == st {
						if !present || got != o.Env[name] {
							c.Violate("C08", "env-override", "%s, command %s: env %s=%q, want this stage's %q", where, r.Info.Key, name, got, o.Env[name])
							return
						}
					} else if present {
						c.Violate("C08", "env-override", "%s, command %s: sees env %s=%q, which only stage %s defines", where, r.Info.Key, name, got, o.Name)
						return
					}
				}
			}
		}
		// variables arrive as argv words NAME=value
		args := map[string]string{}
		for _, a := range r.Info.Args[4:] {
			if i := strings.IndexByte(a, '='); i > 0 {
				args[a[:i]] = a[i+1:]
			}
		}
		for _, name := range sortedKeys(t.Vars) {
			want := t.Vars[name]
			if st != nil {
				if v, ok := st.Vars[name]; ok {
					want = v
				}
			}
			if got := args[name]; got != want {
				c.Violate("C08", "variable-override", "%s, command %s: variable %s=%q, want %q%s", where, r.Info.Key, name, got, want, leakFrom(name, got, false))
				return
			}
		}
		wantDir := t.Dir
		if strings.Contains(wantDir, "{{.VS_V0}}") {
			v := t.Vars["VS_V0"]
			if st != nil {
				if o, ok := st.Vars["VS_V0"]; ok {
					v = o
				}
			}
			wantDir = strings.Replace(wantDir, "{{.VS_V0}}", v, 1)
		}
		if st != nil && st.Dir != "" {
			wantDir = st.Dir
			if strings.Contains(wantDir, "{{.VS_V0}}") {
				v := t.Vars["VS_V0"]
				if o, ok := st.Vars["VS_V0"]; ok {
					v = o
				}
				wantDir = strings.Replace(wantDir, "{{.VS_V0}}", v, 1)
			}
		}
		if wantDir == "" {
			wantDir = cwd
		}
		if r.Info.Dir != wantDir {
			c.Violate("C08", "dir-override", "%s, command %s: working directory %q, want %q", where, r.Info.Key, r.Info.Dir, wantDir)
			return
		}
		c.Count("c08_execs_checked")
		if st != nil && (len(st.Env) > 0 || len(st.Vars) > 0 || st.Dir != "") {
			c.Count("c08_execs_with_overrides")
		}
	}
	// every stage / direct run must have executed its command(s): a stage whose command failed to
	// compile (variable lost) shows up here
	for _, g := range e.w.AllGraphs() {
		for _, s := range g.Stages {
			if s.Nested != nil {
				continue
			}
			found := false
			for gid, sn := range e.stageGID {
				if sn != s.Name {
					continue
				}
				for _, r := range e.execs {
					if r.Info.GID == gid {
						found = true
					}
				}
			}
			if t := e.w.Task(e.stageTask(s)); found && t != nil && t.Cond {
				own := false
				for gid, sn := range e.stageGID {
					if sn != s.Name {
						continue
					}
					for _, r := range e.execs {
						if r.Info.GID == gid && r.Info.Block == "cond" {
							own = true
						}
					}
				}
				if !own {
					c.Violate("C08", "condition-not-evaluated-by-stage", "stage %s of %s ran the task's commands without evaluating the task's condition itself (in its own directory)", s.Name, g.Name)
					return
				}
			}
			if !found && e.pipelineRan(g.Name) {
				c.Violate("C08", "stage-did-not-run", "stage %s of %s executed no command (status %s): its task could not be compiled or run with the stage's overrides", s.Name, g.Name, statusName(e.stages[s.Name].ReadStatus()))
				return
			}
		}
	}
}

func (e *integEngine) pipelineRan(name string) bool {
	for _, d := range e.drivers {
		if d.Spec.Kind == "pipeline" && d.Spec.Target == name && d.Returned {
			return true
		}
	}
	return false
}

// GenOverrideWorld: one shared task, several stages (in one or two pipelines) overriding
// different subsets of its env / variables / dir, plus optionally a direct run.
func GenOverrideWorld(ch *Choices, thorough bool) *IntegWorld {
	w := &IntegWorld{Plans: map[string]*ExecPlan{}, Format: "raw", ViaConfig: true, Sequential: true}
	ne := ch.Range(1, 3, "n-env")
	nv := ch.Range(1, 3, "n-vars")
	t := &TaskSpec{Name: "shared", NCmd: ch.Range(1, 2, "ncmd"), Env: map[string]string{}, Vars: map[string]string{}}
	for i := 0; i < ne; i++ {
		t.Env[fmt.Sprintf("VS_E%d", i)] = fmt.Sprintf("task-e%d", i)
	}
	argv := ""
	for i := 0; i < nv; i++ {
		n := fmt.Sprintf("VS_V%d", i)
		t.Vars[n] = fmt.Sprintf("task-v%d", i)
		argv += fmt.Sprintf(" %s={{.%s}}", n, n)
	}
	t.CmdText = map[int]string{}
	for i := 0; i < t.NCmd; i++ {
		t.CmdText[i] = cmdText("shared", "cmd", i) + argv
		w.Plans[execID("shared", "cmd", i, "")] = &ExecPlan{DurMS: ch.Choose(80, "dur")}
	}
	if ch.Bool(1, 3, "task-dir") {
		t.Dir = "/vs/taskdir"
		if ch.Bool(1, 2, "templated-dir") {
			// the directory is a template over a variable the stages override
			t.Dir = "/vs/dir-{{.VS_V0}}"
		}
	}
	if ch.Bool(1, 3, "export-as") {
		t.ExportAs = "VS_SHARED_RESULT" // (its stages stay as independent of each other as they are declared)
	}
	if ch.Bool(1, 3, "hooks") {
		// hooks see the stage's values too; some use the shell idiom NAME=${NAME:-default}, which
		// turns the environment value into a shell variable of the interpreter that runs the hook
		t.HookText = map[string]string{}
		t.NBefore = ch.Choose(2, "n-before")
		t.NAfter = 1 - t.NBefore + ch.Choose(2, "n-after-extra")
		idiom := ""
		if ch.Bool(2, 3, "shell-default-idiom") {
			idiom = "VS_E0=${VS_E0:-none}; "
		}
		for i := 0; i < t.NBefore; i++ {
			t.HookText[fmt.Sprintf("before/%d", i)] = idiom + cmdText("shared", "before", i) + argv
		}
		for i := 0; i < t.NAfter; i++ {
			t.HookText[fmt.Sprintf("after/%d", i)] = idiom + cmdText("shared", "after", i) + argv
		}
	}
	if ch.Bool(1, 3, "variations") {
		// variation values are passed to the commands as they are written
		t.NVar = 2
		t.VarExtra = map[string]string{"VS_LIT": "{{.VS_V0}}", "VS_PLAIN": "plain"}
		for i := 0; i < t.NCmd; i++ {
			for k := 0; k < 2; k++ {
				w.Plans[execID("shared", "cmd", i, variationName(k))] = &ExecPlan{DurMS: ch.Choose(80, "dur")}
			}
		}
	}
	w.Tasks = []*TaskSpec{t}
	if ch.Bool(1, 3, "named-context") {
		// a named context is one object shared by every run of the task
		w.Contexts = []*CtxSpec{{Name: "c0", NBefore: ch.Choose(2, "ncb"), NAfter: ch.Choose(2, "nca"), NDown: ch.Choose(2, "ndown")}}
		t.Context = "c0"
		if ch.Bool(1, 2, "context-variables") {
			// a context may declare variables of its own; a task's or a stage's value of the same name wins
			w.Contexts[0].Vars = map[string]string{"VS_V0": "ctx-v0", "VS_CTXONLY": "ctx-only"}
		}
	}
	if !strings.Contains(t.Dir, "{{") && ch.Bool(1, 4, "task-condition") {
		// the task's condition is evaluated by every stage for itself, in the stage's directory
		t.Cond = true
		w.Plans[execID("shared", "cond", 0, "")] = &ExecPlan{DurMS: ch.Choose(60, "cond-dur")}
	}
	namedAfterTask := false
	npipe := 1
	if ch.Bool(1, 3, "two-pipelines") {
		npipe = 2
	}
	maxStages := 4
	if thorough {
		maxStages = 6
	}
	for p := 0; p < npipe; p++ {
		g := &GraphSpec{Name: fmt.Sprintf("p%d", p+1)}
		ns := ch.Range(2, maxStages, "n-stages")
		if p > 0 {
			ns = ch.Range(1, 3, "n-stages-2")
		}
		arrangement := ch.Choose(3, "arrangement") // 0 parallel, 1 chained, 2 mixed
		for i := 0; i < ns; i++ {
			s := &StageSpec{Name: fmt.Sprintf("p%ds%d", p+1, i), Task: "shared"}
			switch arrangement {
			case 1:
				if i > 0 {
					s.Deps = []string{g.Stages[i-1].Name}
				}
			case 2:
				if i > 0 && ch.Bool(1, 2, "dep") {
					s.Deps = []string{g.Stages[ch.Choose(i, "dep-which")].Name}
				}
			}
			for k := 0; k < ne; k++ {
				if ch.Bool(1, 2, "override-env") {
					if s.Env == nil {
						s.Env = map[string]string{}
					}
					s.Env[fmt.Sprintf("VS_E%d", k)] = fmt.Sprintf("%s-e%d", s.Name, k)
				}
			}
			for k := 0; k < nv; k++ {
				if ch.Bool(1, 2, "override-var") {
					if s.Vars == nil {
						s.Vars = map[string]string{}
					}
					s.Vars[fmt.Sprintf("VS_V%d", k)] = fmt.Sprintf("%s-v%d", s.Name, k)
				}
			}
			if ch.Bool(1, 4, "override-dir") {
				s.Dir = "/vs/" + s.Name
				if !t.Cond && ch.Bool(1, 2, "templated-stage-dir") {
					// every stage with its own template text over the variable it may override
					s.Dir = "/vs/" + s.Name + "-{{.VS_V0}}"
				}
			}
			if ch.Bool(1, 3, "stage-only-env") {
				if s.Env == nil {
					s.Env = map[string]string{}
				}
				// a name only this stage defines: nobody else may ever see it
				s.Env["VS_ONLY_"+strings.ToUpper(s.Name)] = "only-" + s.Name
			}
			g.Stages = append(g.Stages, s)
		}
		if p == 0 && ch.Bool(1, 4, "stage-named-after-task") {
			// the first stage carries no name of its own (it is called after the task, "shared");
			// stages that depend on it name it so
			old := g.Stages[0].Name
			g.Stages[0].Name = "shared"
			namedAfterTask = true
			for _, s := range g.Stages[1:] {
				for i, d := range s.Deps {
					if d == old {
						s.Deps[i] = "shared"
					}
				}
			}
		}
		if p == 0 {
			w.Graph = g
		} else {
			w.ExtraGraphs = append(w.ExtraGraphs, g)
		}
		w.Drivers = append(w.Drivers, DriverSpec{Kind: "pipeline", Target: g.Name})
	}
	if ch.Bool(1, 2, "direct-run") && !namedAfterTask {
		// (a direct run is told apart from the stages by its name: not when a stage is called like the task)
		d := DriverSpec{Kind: "task", Target: "shared"}
		if ch.Bool(1, 2, "direct-first") {
			w.Drivers = append([]DriverSpec{d}, w.Drivers...)
		} else {
			w.Drivers = append(w.Drivers, d)
		}
	}
	return w
}

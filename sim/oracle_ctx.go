package verifsim

import (
	"fmt"
	"strings"
)

// C14: execution-context hooks.

func (e *integEngine) checkC14(x *integExpect) {
	c := e.c
	cancelled := len(e.cancelCalls) > 0
	for _, cs := range e.w.Contexts {
		owner := "ctx:" + cs.Name
		all := e.execsOf(owner)
		// which task executions used this context
		var users []runRec
		for _, rr := range e.runGID {
			rr.Task = e.taskOfRun(rr.Task)
			if t := e.w.Task(rr.Task); t != nil && t.Context == cs.Name {
				users = append(users, rr)
			}
		}
		// (a) up commands: at most once each; exactly once when used and no earlier up command failed
		upCount := map[int]int{}
		upFailed := false
		lastUpEnd := -1
		for _, r := range all {
			if r.Info.Block == "up" {
				upCount[r.Info.Idx]++
				if r.Result != "0" {
					upFailed = true
				}
				if r.EndSeq > lastUpEnd {
					lastUpEnd = r.EndSeq
				}
				if r.EndSeq < 0 {
					lastUpEnd = 1 << 30
				}
			}
		}
		for i := 0; i < cs.NUp; i++ {
			if upCount[i] > 1 {
				c.Violate("C14", "up-more-than-once", "context %s: up command %d ran %d times", cs.Name, i, upCount[i])
			}
		}
		if len(users) > 0 && !cancelled {
			failedEarlier := false
			for i := 0; i < cs.NUp; i++ {
				if upCount[i] == 0 && !failedEarlier {
					c.Violate("C14", "up-not-run", "context %s was used by %d task execution(s) but its up command %d never ran", cs.Name, len(users), i)
				}
				if planExit(e.w.Plan(execID(owner, "up", i, ""))) != 0 {
					failedEarlier = true
				}
			}
		}
		if upFailed {
			c.Count("c14_up_failed_contexts")
		}
		// (b) up completes before any hook or command of any task in that context
		if cs.NUp > 0 {
			for _, r := range e.execs {
				belongs := false
				if r.Info.Owner == owner && r.Info.Block != "up" {
					belongs = true
				} else if t := e.w.Task(r.Info.Owner); t != nil && t.Context == cs.Name {
					belongs = true
				}
				if belongs && r.StartSeq < lastUpEnd {
					c.Violate("C14", "before-up-finished", "context %s: %s started (seq %d) before the up commands had finished (seq %d)", cs.Name, r.Info.Key, r.StartSeq, lastUpEnd)
					break
				}
			}
		}
		// (c) failing up: no task of the context runs any command, each reports an error
		if upFailed {
			for _, t := range e.w.Tasks {
				if t.Context != cs.Name {
					continue
				}
				if rs := e.execsOf(t.Name); len(rs) > 0 {
					c.Violate("C14", "ran-despite-up-failure", "context %s failed to start but task %s executed %v", cs.Name, t.Name, idsOf(rs))
				}
				if known, ok := e.taskSucceeded(t.Name); known && ok && e.taskWasRun(t.Name) {
					c.Violate("C14", "success-despite-up-failure", "context %s failed to start but task %s reports success", cs.Name, t.Name)
				}
			}
		}
		// (c') a failing before hook: the task executions of the context run none of their own
		// commands and report the error; the context is still taken down (rule e)
		beforeFails := false
		for k := 0; k < cs.NBefore; k++ {
			if planExit(e.w.Plan(execID(owner, "before", k, ""))) != 0 {
				beforeFails = true
			}
		}
		if beforeFails && !upFailed {
			for _, t := range e.w.Tasks {
				if t.Context != cs.Name {
					continue
				}
				if rs := e.execsOf(t.Name); len(rs) > 0 {
					c.Violate("C14", "ran-despite-before-failure", "context %s: its before hook fails but task %s executed %v", cs.Name, t.Name, idsOf(rs))
				}
				if known, ok := e.taskSucceeded(t.Name); known && ok && e.taskWasRun(t.Name) {
					c.Violate("C14", "success-despite-before-failure", "context %s: its before hook fails but task %s reports success", cs.Name, t.Name)
				}
			}
			c.Count("c14_contexts_with_failing_before")
		}
		// (d) before/after once per task execution, around the task's own commands
		if !upFailed && !cancelled && !beforeFails {
			for _, rr := range users {
				e.checkHookPattern(cs, rr)
			}
		}
		// (d') under a cancellation the exact pattern is not demanded, but the pairing is: an
		// execution whose before hook ran gets its after hook (the hooks do not run under the
		// cancelled context)
		if !upFailed && cancelled && e.finished && cs.NBefore > 0 && cs.NAfter > 0 {
			for _, rr := range users {
				nb, na, done := 0, 0, true
				for _, r := range e.execs {
					if r.Info.GID != rr.GID || r.StartSeq < rr.Seq || r.Info.Owner != owner {
						continue
					}
					switch r.Info.Block {
					case "before":
						nb++
						if r.EndSeq < 0 || r.Result != "0" {
							done = false
						}
					case "after":
						na++
					}
				}
				if nb == cs.NBefore && done && na == 0 {
					c.Violate("C14", "after-missing-after-cancel", "task %s in context %s: the context's before hook ran for this execution but its after hook never did (the run was cancelled meanwhile)", rr.Task, cs.Name)
				}
				if nb > 0 {
					c.Count("c14_hook_pairs_checked_under_cancel")
				}
			}
		}
		// (e) down: exactly once each, after everything else, only for used contexts, at Finish
		downCount := map[int]int{}
		for _, r := range all {
			if r.Info.Block == "down" {
				downCount[r.Info.Idx]++
				for _, o := range e.execs {
					if o.Info.Block != "down" && (o.EndSeq < 0 || o.EndSeq > r.StartSeq) {
						c.Violate("C14", "down-before-tasks-finished", "context %s: down command %d started (seq %d) while %s had not finished", cs.Name, r.Info.Idx, r.StartSeq, o.Info.Key)
						break
					}
				}
			}
		}
		for i := 0; i < cs.NDown; i++ {
			n := downCount[i]
			switch {
			case n > 1:
				c.Violate("C14", "down-more-than-once", "context %s: down command %d ran %d times (Finish called %d time(s))", cs.Name, i, n, e.finishCalls())
			case len(users) == 0 && n > 0:
				c.Violate("C14", "down-for-unused-context", "context %s was never used but its down command %d ran", cs.Name, i)
			case len(users) > 0 && n == 0 && e.finished && !upFailed && !cancelled:
				// (after a Cancel a run may have been refused before it touched its context)
				c.Violate("C14", "down-not-run", "context %s was used by %d task execution(s) but its down command %d did not run at Finish", cs.Name, len(users), i)
			}
		}
		if len(users) > 0 {
			c.Count("c14_used_contexts")
		} else {
			c.Count("c14_unused_contexts")
		}
		if len(users) >= 2 {
			c.Count("c14_contexts_shared_by_2plus")
		}
	}
}

// taskOfRun: the task behind the subject of a run-enter event ("task" or, for a task shared by
// several stages, "task@stage").
func (e *integEngine) taskOfRun(subject string) string {
	if e.w.Task(subject) == nil {
		if i := strings.LastIndex(subject, "@"); i > 0 && e.w.Task(subject[:i]) != nil {
			return subject[:i]
		}
	}
	return subject
}

func (e *integEngine) finishCalls() int {
	if e.w.FinishTwice {
		return 2
	}
	return 1
}

func (e *integEngine) taskWasRun(name string) bool {
	for _, rr := range e.runGID {
		if e.taskOfRun(rr.Task) == name {
			return true
		}
	}
	return false
}

// checkHookPattern: inside the goroutine of one task execution the commands must be
//
//	[up...]  before-block  own commands...  after-block
func (e *integEngine) checkHookPattern(cs *CtxSpec, rr runRec) {
	c := e.c
	owner := "ctx:" + cs.Name
	var seq []*execRec
	for _, r := range e.execs {
		if r.Info.GID == rr.GID && r.StartSeq > rr.Seq {
			seq = append(seq, r)
		}
	}
	var lab []string
	first, last := -1, -1
	for i, r := range seq {
		switch {
		case r.Info.Owner == rr.Task:
			lab = append(lab, r.Info.ID)
			if first < 0 {
				first = i
			}
			last = i
		case r.Info.Owner == owner:
			lab = append(lab, fmt.Sprintf("%s/%d", r.Info.Block, r.Info.Idx))
		default:
			lab = append(lab, "?"+r.Info.ID)
		}
	}
	trace := strings.Join(lab, " ")
	block := func(name string, n int) []string {
		var out []string
		for i := 0; i < n; i++ {
			out = append(out, fmt.Sprintf("%s/%d", name, i))
		}
		return out
	}
	eq := func(a, b []string) bool {
		if len(a) != len(b) {
			return false
		}
		for i := range a {
			if a[i] != b[i] {
				return false
			}
		}
		return true
	}
	rt := e.resultTask(rr.Task)
	if first < 0 {
		c.Violate("C14", "no-own-commands", "task %s in context %s ran none of its own commands: %s", rr.Task, cs.Name, trace)
		return
	}
	// prefix: optional up commands, then exactly one before block
	pre := lab[:first]
	for len(pre) > 0 && strings.HasPrefix(pre[0], "up/") {
		pre = pre[1:]
	}
	mid := lab[first : last+1]
	post := lab[last+1:]
	skipped := rt.Skipped
	okPre := eq(pre, block("before", cs.NBefore)) || (skipped && len(pre) == 0)
	if !okPre {
		c.Violate("C14", "before-hook-count", "task %s in context %s: the context's before hook must run exactly once immediately before the task (want %v), goroutine history: %s", rr.Task, cs.Name, block("before", cs.NBefore), trace)
	}
	for _, l := range mid {
		if !strings.HasPrefix(l, rr.Task+"/") {
			c.Violate("C14", "hook-inside-task", "task %s in context %s: context hook %s ran between the task's own commands: %s", rr.Task, cs.Name, l, trace)
			break
		}
	}
	wantPost := block("after", cs.NAfter)
	for k := 0; k < cs.NAfter; k++ {
		if planExit(e.w.Plan(execID(owner, "after", k, ""))) != 0 {
			wantPost = wantPost[:k+1] // the hook stops at its first failing command
			break
		}
	}
	okPost := eq(post, wantPost) || (skipped && len(post) == 0)
	if !okPost {
		c.Violate("C14", "after-hook-count", "task %s in context %s: the context's after hook must run exactly once after the task (want %v), goroutine history: %s", rr.Task, cs.Name, block("after", cs.NAfter), trace)
	}
	c.Count("c14_task_executions_checked")
}

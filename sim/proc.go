package verifsim

import (
	"context"
	"fmt"
	"io"
	"runtime"
	"strconv"
	"strings"
	"sync"
	"time"

	"mvdan.cc/sh/v3/expand"
	"mvdan.cc/sh/v3/interp"
)

// Simulated process layer: installed as interp.ExecHandler through the H1
// hook. The real DefaultExecHandler (fork, SIGINT, SIGKILL after 2 s) is not
// executed; its contract is modelled: a process ends with an exit status, or,
// once its context is done, returns ctx.Err() at once (honours the interrupt)
// or after a kill delay (ignores it), or exits by itself with a status.

const killGrace = 2 * time.Second

type ExecInfo struct {
	ID      string // owner/block/i[/variation]
	Key     string // ID#occurrence
	Owner   string
	Block   string
	Idx     int
	Var     string
	Args    []string
	Dir     string
	Env     map[string]string
	StartAt time.Duration
	GID     int64 // goroutine that runs the command (= the goroutine of the task execution)
	// progress, owned by the controller
	ChunkPos int
	// filled by the handler
	CtxDoneAt  time.Duration
	CtxDone    bool
	HasTimeout bool
	Deadline   time.Duration
	wbuf       []byte // the process's (reused) write buffer
}

type procLayer struct {
	c    *Ctl
	mu   sync.Mutex
	occ  map[string]int
	envF func(name string) bool // which env names to snapshot
	// onWrite is told which exec is delivering a chunk right now ("" = none)
	onWrite func(key string)
	// ident: goroutine id -> name of the execution it carries (stage or directly run task);
	// written by the hooks in that goroutine, read by the exec handler in that goroutine
	ident      sync.Map
	stageIdent sync.Map // goroutines that belong to a stage (their identity is never overwritten)
}

func (pl *procLayer) identity(gid int64) string {
	if v, ok := pl.ident.Load(gid); ok {
		return v.(string)
	}
	return ""
}

func newProcLayer(c *Ctl) *procLayer {
	return &procLayer{c: c, occ: map[string]int{}}
}

func (pl *procLayer) nextOcc(id string) int {
	pl.mu.Lock()
	defer pl.mu.Unlock()
	k := pl.occ[id]
	pl.occ[id] = k + 1
	return k
}

// curGID returns the id of the calling goroutine (parsed from its stack header); used only to
// attribute context hook commands to the task execution whose goroutine runs them.
func curGID() int64 {
	var buf [64]byte
	n := runtime.Stack(buf[:], false)
	// "goroutine 123 ["
	var id int64
	for i := len("goroutine "); i < n; i++ {
		ch := buf[i]
		if ch < '0' || ch > '9' {
			break
		}
		id = id*10 + int64(ch-'0')
	}
	return id
}

func parseSimArgs(args []string) (owner, block string, idx int, ok bool) {
	if len(args) < 4 || args[0] != "sim" {
		return "", "", 0, false
	}
	i, err := strconv.Atoi(args[3])
	if err != nil {
		return "", "", 0, false
	}
	return args[1], args[2], i, true
}

// Handler is the interp.ExecHandlerFunc.
func (pl *procLayer) Handler(ctx context.Context, args []string) error {
	c := pl.c
	hc := interp.HandlerCtx(ctx)
	owner, block, idx, ok := parseSimArgs(args)
	if !ok {
		// an external command that is not part of the world
		c.Note("exec-foreign", strings.Join(args, " "), "")
		fmt.Fprintf(hc.Stderr, "%q: executable file not found in $PATH\n", args[0])
		return interp.NewExitStatus(127)
	}
	info := &ExecInfo{Owner: owner, Block: block, Idx: idx, Args: append([]string(nil), args...), Dir: hc.Dir, Env: map[string]string{}}
	hc.Env.Each(func(name string, vr expand.Variable) bool {
		// (what a real child process would get: the exported variables)
		if vr.Exported && vr.Kind == expand.String && (pl.envF == nil || pl.envF(name)) {
			info.Env[name] = vr.Str
		}
		return true
	})
	info.Var = info.Env["VS_VAR"]
	if block != "cmd" {
		info.Var = ""
	}
	info.ID = execID(owner, block, idx, info.Var)
	info.GID = curGID()
	// the key must not depend on which of several concurrently runnable goroutines got here
	// first: occurrences are counted per execution (goroutine identity), not globally
	if who := pl.identity(info.GID); who != "" && who != owner {
		info.Key = info.ID + "@" + who
	} else {
		info.Key = info.ID
	}
	info.Key = fmt.Sprintf("%s#%d", info.Key, pl.nextOcc(info.Key))
	info.StartAt = c.Now()
	if dl, ok := ctx.Deadline(); ok {
		info.HasTimeout = true
		info.Deadline = dl.Sub(c.T0)
	}
	c.NoteData("exec-start", info.Key, strings.Join(args[4:], " "), info)
	res := pl.run(ctx, hc, info)
	d := "0"
	if res != nil {
		if st, ok := interp.IsExitStatus(res); ok {
			d = fmt.Sprint(st)
		} else {
			d = "err:" + res.Error()
		}
	}
	c.NoteData("exec-end", info.Key, d, info)
	return res
}

func (pl *procLayer) run(ctx context.Context, hc interp.HandlerContext, info *ExecInfo) error {
	c := pl.c
	for {
		act, ok := c.YieldOr("exec", info.Key, info, ctx.Done())
		if !ok {
			// the context is done: the real handler now signals the process
			info.CtxDone = true
			info.CtxDoneAt = c.Now()
			c.NoteData("exec-ctxdone", info.Key, ctx.Err().Error(), info)
			_, a := c.Yield("exec-dying", info.Key, info)
			switch a.Kind {
			case "dielater":
				// killed a.D after the interrupt was sent
				if d := info.CtxDoneAt + a.D - c.Now(); d > 0 {
					time.Sleep(d)
				}
				return ctx.Err()
			case "exit":
				if a.Code == 0 {
					return nil
				}
				return interp.NewExitStatus(uint8(a.Code))
			default: // die, abort
				return ctx.Err()
			}
		}
		switch act.Kind {
		case "write":
			w := hc.Stdout
			if act.Stream == 2 {
				w = hc.Stderr
			}
			c.NoteData("exec-write", info.Key, fmt.Sprintf("s%d %dB", act.Stream, len(act.Data)), info)
			if pl.onWrite != nil {
				pl.onWrite(info.Key)
			}
			// like a real process pipe (os/exec copies through one buffer): the chunk is handed
			// over in a buffer that is reused - and therefore overwritten - after Write returns
			if cap(info.wbuf) < len(act.Data) {
				info.wbuf = make([]byte, len(act.Data)+64)
			}
			b := info.wbuf[:len(act.Data)]
			copy(b, act.Data)
			n, werr := w.Write(b)
			for i := range b {
				b[i] = 0xAA
			}
			if pl.onWrite != nil {
				pl.onWrite("")
			}
			c.NoteData("exec-wrote", info.Key, "", info)
			// os/exec reports a failed or short copy of the process's output as the command's error
			if werr == nil && n != len(act.Data) {
				werr = io.ErrShortWrite
			}
			if werr != nil {
				c.Count("fault_output_write_error")
				return werr
			}
			continue
		case "exit":
			if act.Code == 0 {
				return nil
			}
			return interp.NewExitStatus(uint8(act.Code))
		case "notfound":
			fmt.Fprintf(hc.Stderr, "%q: executable file not found in $PATH\n", info.Args[0])
			return interp.NewExitStatus(127)
		case "abort":
			return interp.NewExitStatus(1)
		default:
			return nil
		}
	}
}

// recSink is the recording, synchronised writer given to the runner as
// Stdout/Stderr. It attributes every Write to the exec whose chunk the
// controller is currently delivering.
type sinkWrite struct {
	Seq  int
	Data []byte
	By   string // exec key being written at that moment ("" = outside any chunk delivery)
}

type recSink struct {
	mu     sync.Mutex
	c      *Ctl
	name   string
	Writes []sinkWrite
	cur    func() string
}

func (s *recSink) Write(p []byte) (int, error) {
	s.mu.Lock()
	by := ""
	if s.cur != nil {
		by = s.cur()
	}
	s.Writes = append(s.Writes, sinkWrite{Data: append([]byte(nil), p...), By: by})
	s.mu.Unlock()
	return len(p), nil
}

func (s *recSink) Bytes() []byte {
	s.mu.Lock()
	defer s.mu.Unlock()
	var out []byte
	for _, w := range s.Writes {
		out = append(out, w.Data...)
	}
	return out
}

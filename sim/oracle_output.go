package verifsim

import (
	"bytes"
	"fmt"
	"strings"
)

// C19: output decoration.

// stripANSIRef removes well-formed CSI sequences: ESC '[' params final-letter.
func stripANSIRef(b []byte) []byte {
	out := make([]byte, 0, len(b))
	for i := 0; i < len(b); {
		if b[i] == 0x1b && i+1 < len(b) && b[i+1] == '[' {
			j := i + 2
			for j < len(b) && ((b[j] >= '0' && b[j] <= '9') || b[j] == ';') {
				j++
			}
			if j < len(b) && ((b[j] >= 'A' && b[j] <= 'Z') || (b[j] >= 'a' && b[j] <= 'z')) {
				i = j + 1
				continue
			}
		}
		out = append(out, b[i])
		i++
	}
	return out
}

func stripCRLF(b []byte) []byte {
	out := make([]byte, 0, len(b))
	for _, ch := range b {
		if ch != '\r' && ch != '\n' {
			out = append(out, ch)
		}
	}
	return out
}

// normalise: line terminators removed, then ANSI sequences removed, to a fixpoint.
func normaliseStream(b []byte) []byte {
	cur := stripCRLF(b)
	for {
		next := stripANSIRef(cur)
		if len(next) == len(cur) {
			return next
		}
		cur = next
	}
}

func (e *integEngine) taskOfExecKey(key string) string {
	if r := e.execBy[key]; r != nil {
		return r.Info.Owner
	}
	return ""
}

func (e *integEngine) checkC19() {
	c := e.c
	// what each task wrote (both streams, in delivery order) and the global delivery order
	perTask := map[string][]byte{}
	var global []byte
	for _, ev := range c.Events {
		if ev.Kind != "exec-write" {
			continue
		}
		info := ev.Data.(*ExecInfo)
		if !isTaskBlock(info.Block) || info.Block != "cmd" {
			continue
		}
		_ = info
	}
	// reconstruct from the plans and the delivery order recorded in exec-write events
	pos := map[string]int{}
	for _, ev := range c.Events {
		if ev.Kind != "exec-write" {
			continue
		}
		info := ev.Data.(*ExecInfo)
		if info.Block != "cmd" {
			continue
		}
		plan := e.w.PlanFor(info.ID, e.pl.identity(info.GID))
		k := pos[info.Key]
		pos[info.Key] = k + 1
		if k >= len(plan.Chunks) {
			continue
		}
		d := plan.Chunks[k].Data
		perTask[info.Owner] = append(perTask[info.Owner], d...)
		global = append(global, d...)
	}
	sunk := e.sink.Writes
	switch e.w.Format {
	case "raw":
		// every task's bytes arrive unchanged and in order (writes of different tasks may interleave
		// in any way: a writer can be preempted between taking a chunk and passing it on)
		got := map[string][]byte{}
		for _, w := range sunk {
			got[w.By] = append(got[w.By], w.Data...)
		}
		for _, t := range e.w.Tasks {
			if !bytes.Equal(got[t.Name], perTask[t.Name]) {
				c.Violate("C19", "raw-not-verbatim", "raw output: from task %s the sink received %d bytes %s, the task wrote %d bytes %s", t.Name, len(got[t.Name]), quoteShort(got[t.Name]), len(perTask[t.Name]), quoteShort(perTask[t.Name]))
			}
		}
		for who := range got {
			if e.w.Task(who) == nil && len(got[who]) > 0 {
				c.Violate("C19", "raw-not-verbatim", "raw output: %d bytes written by %q, which is not a task: %s", len(got[who]), who, quoteShort(got[who]))
			}
		}
		c.Counters["c19_raw_bytes"] += len(global)
	case "prefixed":
		payload := map[string][]byte{}
		rawGot := map[string][]byte{}
		for _, w := range sunk {
			writer := w.By // the execution (= task, in these worlds) whose goroutine wrote the line
			if t := e.w.Task(writer); t != nil && t.Interactive {
				// an interactive task owns the terminal: its bytes pass through unchanged, whatever
				// the format - and only its bytes
				rawGot[writer] = append(rawGot[writer], w.Data...)
				continue
			}
			line := w.Data
			if !bytes.HasSuffix(line, []byte("\r\n")) {
				c.Violate("C19", "prefixed-not-whole-line", "prefixed output: a write to the sink is not one whole line: %s", quoteShort(line))
				return
			}
			body := line[:len(line)-2]
			if bytes.ContainsAny(body, "\n") {
				c.Violate("C19", "prefixed-not-whole-line", "prefixed output: a write to the sink contains more than one line: %s", quoteShort(line))
				return
			}
			// the prefix: task name (possibly coloured) followed by ": "
			name, rest, ok := splitPrefix(body)
			if !ok {
				c.Violate("C19", "prefixed-no-prefix", "prefixed output: line without a task prefix: %s", quoteShort(line))
				return
			}
			if e.w.Task(name) == nil {
				c.Violate("C19", "prefixed-unknown-name", "prefixed output: line prefixed with %q, which is not a task: %s", name, quoteShort(line))
				return
			}
			if writer != "" && name != writer {
				c.Violate("C19", "prefixed-wrong-task", "prefixed output: a line emitted while task %s was writing carries the name of task %s: %s", writer, name, quoteShort(line))
				return
			}
			payload[name] = append(payload[name], rest...)
			c.Count("c19_prefixed_lines")
		}
		for _, t := range e.w.Tasks {
			if t.Interactive {
				if !bytes.Equal(rawGot[t.Name], perTask[t.Name]) {
					c.Violate("C19", "raw-not-verbatim", "interactive task %s under the prefixed format: the sink received %d bytes %s, the task wrote %d bytes %s", t.Name, len(rawGot[t.Name]), quoteShort(rawGot[t.Name]), len(perTask[t.Name]), quoteShort(perTask[t.Name]))
				}
				c.Count("c19_interactive_tasks_under_prefixed")
				continue
			}
			want := normaliseStream(perTask[t.Name])
			got := normaliseStream(payload[t.Name])
			if !bytes.Equal(got, want) {
				i := 0
				for i < len(got) && i < len(want) && got[i] == want[i] {
					i++
				}
				lo := i - 20
				if lo < 0 {
					lo = 0
				}
				c.Violate("C19", "prefixed-content", "prefixed output of task %s differs from what it wrote (after removing prefixes, line terminators and ANSI sequences) at byte %d: got ...%s, want ...%s (lengths %d / %d)", t.Name, i, quoteShort(got[lo:]), quoteShort(want[lo:]), len(got), len(want))
				return
			}
		}
	case "cockpit":
		// cockpit swallows task output; only the result comparison and "no crash" apply
	}
}

// splitPrefix parses "<name>: <payload>" where name may be wrapped in ANSI colour codes.
func splitPrefix(body []byte) (string, []byte, bool) {
	i := bytes.Index(body, []byte(": "))
	if i < 0 {
		if bytes.HasSuffix(body, []byte(":")) {
			// "name:" + empty payload cannot happen: the format always has ": "
		}
		return "", nil, false
	}
	// the coloured name may itself contain no ": "; find the first ": " after the colour reset
	namePart := body[:i]
	name := string(stripANSIRef(namePart))
	return name, body[i+2:], true
}

// resultSignature is compared across output formats (format is presentation only).
func (e *integEngine) resultSignature() string {
	var parts []string
	for _, t := range e.w.Tasks {
		rt := e.resultTask(t.Name)
		var derr string
		for _, d := range e.drivers {
			if d.Spec.Kind == "task" && d.Spec.Target == t.Name && d.Returned {
				derr = fmt.Sprint(d.Err != nil)
			}
		}
		parts = append(parts, fmt.Sprintf("%s{exit=%d errored=%v skipped=%v runerr=%s out=%dB:%x err=%dB:%x}", t.Name, rt.ExitCode, rt.Errored, rt.Skipped, derr,
			len(rt.Output()), shortHash([]byte(rt.Output())), rt.Log.Stderr.Len(), shortHash(rt.Log.Stderr.Bytes())))
	}
	return strings.Join(parts, " ")
}

func shortHash(b []byte) uint32 {
	var h uint32 = 2166136261
	for _, ch := range b {
		h ^= uint32(ch)
		h *= 16777619
	}
	return h
}

// ---- stream generator ----

var ansiSeqs = []string{"\x1b[31m", "\x1b[0m", "\x1b[1;32m", "\x1b[2K", "\x1b[10;20H", "\x1b[1A", "\x1b[38;5;196m", "\x1b[m", "\x1b[J"}

func genStream(ch *Choices, big bool) []byte {
	var sb bytes.Buffer
	nl := 1 + ch.Choose(6, "stream-lines")
	for i := 0; i < nl; i++ {
		// one line: segments of text / ansi / unicode
		kind := ch.Weighted([]int{6, 2, 1, 1}, "line-kind")
		switch kind {
		case 3:
			// a coloured status line that rings the bell: the colour sequence goes, the text (it
			// contains spaces, so it cannot be part of a bell-terminated sequence) and the bell stay
			sb.WriteString("\x1b[1;3" + string(rune('1'+ch.Choose(6, "colour"))) + "m")
			sb.WriteString("FAILED " + genWord(ch, 8) + " check: " + genWord(ch, 3) + " of 5 probes\x07")
			if ch.Bool(1, 2, "reset") {
				sb.WriteString("\x1b[0m")
			}
		case 0:
			segs := ch.Choose(5, "segs")
			for s := 0; s < segs; s++ {
				switch ch.Weighted([]int{5, 3, 2, 1}, "seg-kind") {
				case 0:
					sb.WriteString(genWord(ch, 12))
				case 1:
					sb.WriteString(ansiSeqs[ch.Choose(len(ansiSeqs), "ansi")])
				case 2:
					sb.WriteString(unicodeBits[ch.Choose(len(unicodeBits), "uni")])
				default:
					sb.WriteString([]string{" ", "\t", ": ", "5", "1m", "[", "12;"}[ch.Choose(7, "punct")])
				}
			}
		case 1: // empty line
		default: // long line
			n := 200
			if big {
				n = []int{1000, 4095, 4096, 4097, 10000}[ch.Choose(5, "long-len")]
			}
			esc := -1
			if n > 4096 && ch.Bool(1, 2, "escape-near-4096") {
				esc = 4090 + ch.Choose(10, "escape-offset") // a colour sequence across the 4096th byte of the line
			}
			for k := 0; k < n; k++ {
				if k == esc {
					sb.WriteString("\x1b[1;31m")
				}
				sb.WriteByte(wordAlphabet[(k*11+n)%len(wordAlphabet)])
			}
		}
		last := i == nl-1
		if last && ch.Bool(1, 3, "unterminated-tail") {
			if ch.Bool(1, 3, "dangling-introducer") {
				// the stream ends inside an escape introducer that never completes: these bytes are
				// not an ANSI sequence and belong to the output
				// (only introducers without a digit: taskctl's pattern, the well-known ansi-regex,
				// accepts a digit as final byte, so "ESC [ 3" is a sequence by its definition)
				sb.WriteString([]string{"\x1b", "\x1b[", "\x1b[?"}[ch.Choose(3, "introducer")])
			}
			break
		}
		switch ch.Weighted([]int{6, 2, 1}, "eol") {
		case 0:
			sb.WriteString("\n")
		case 1:
			sb.WriteString("\r\n")
		default:
			sb.WriteString("\rprogress\n") // lone CR inside a line
		}
	}
	return sb.Bytes()
}

// GenOutputWorld: 1..8 tasks, each one process writing a stream in seeded chunks.
func GenOutputWorld(ch *Choices, thorough bool) *IntegWorld {
	w := &IntegWorld{Plans: map[string]*ExecPlan{}, Format: "raw"}
	max := 5
	if thorough {
		max = 8
	}
	n := ch.Range(1, max, "n-tasks")
	used := map[string]bool{}
	for i := 0; i < n; i++ {
		nm := genTaskName(ch, i, []string{"simple", "ascii"}[ch.Choose(2, "name-style")], used)
		t := &TaskSpec{Name: nm, NCmd: 1}
		id := execID(nm, "cmd", 0, "")
		pl := &ExecPlan{}
		if ch.Bool(1, 2, "takes-time") {
			pl.DurMS = ch.Choose(400, "dur") // long enough for the cockpit's spinner to tick in between
		}
		// outcome kinds for the format-independence part
		switch ch.Weighted([]int{6, 2, 1, 1}, "outcome") {
		case 1:
			pl.Exit = genExit(ch)
			t.Allow = ch.Bool(1, 3, "allow")
		case 2:
			t.Cond = true
			w.Plans[execID(nm, "cond", 0, "")] = &ExecPlan{Exit: 1}
		case 3:
			t.NBefore = 1
			w.Plans[execID(nm, "before", 0, "")] = &ExecPlan{Exit: genExit(ch)}
		}
		data := genStream(ch, thorough || ch.Bool(1, 4, "big"))
		maxChunks := 6
		if len(data) > 200 {
			maxChunks = 12
		}
		pl.Chunks = splitChunks(ch, data, 1, maxChunks)
		// some chunks go to stderr (same decorator)
		for k := range pl.Chunks {
			if ch.Bool(1, 8, "to-stderr") {
				pl.Chunks[k].Stream = 2
			}
		}
		w.Plans[id] = pl
		t.Interactive = ch.Bool(1, 8, "interactive")
		w.Tasks = append(w.Tasks, t)
		w.Drivers = append(w.Drivers, DriverSpec{Kind: "task", Target: nm})
	}
	return w
}

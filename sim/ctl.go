package verifsim

import (
	"crypto/sha256"
	"encoding/hex"
	"fmt"
	"sort"
	"strings"
	"sync/atomic"
	"testing/synctest"
	"time"
)

// Event is one record of the run history. Seq is the controller's global
// event sequence number (arrival order at the controller, which respects
// causality); At is simulated time and is NOT part of the canonical log.
type Event struct {
	Seq     int           `json:"seq"`
	Batch   int           `json:"batch"`
	Kind    string        `json:"kind"`
	Subject string        `json:"subj"`
	Detail  string        `json:"detail,omitempty"`
	At      time.Duration `json:"at_ns"`
	Data    interface{}   `json:"-"`
}

// Action is what the controller tells a parked goroutine to do next.
type Action struct {
	Kind   string // go | exit | write | notfound | die | dielater | abort
	Code   int
	Stream int // 1 stdout, 2 stderr
	Data   []byte
	D      time.Duration
}

// Park is a managed goroutine blocked at a park point, waiting for the controller.
type Park struct {
	GID    int64 // goroutine that is parked
	Kind   string
	Key    string
	Data   interface{}
	Seq    int
	At     time.Duration
	resume chan Action
}

type report struct {
	at      time.Duration // simulated time at the reporting goroutine
	park    *Park
	ev      *Event
	retract *Park // a previously reported park that is no longer waiting (its goroutine woke by itself)
}

type Violation struct {
	Prop string `json:"prop"`
	Rule string `json:"rule"`
	Msg  string `json:"msg"`
	Seq  int    `json:"seq"`
}

type Ctl struct {
	T0       time.Time
	Ch       *Choices
	reports  chan report
	Parked   []*Park
	Events   []Event
	batch    int
	Viol     []Violation
	Counters map[string]int
	aborting int32
	Steps    int
	Reported int // number of reports received from managed goroutines so far
	// limbo: number of goroutines blocked on a non-durable primitive (sync.Once
	// mutex); while >0 the controller must not call synctest.Wait or sleep.
	limbo int
	// holdBatch: while true, Quiesce does not start a new batch (a settle counts as one batch).
	holdBatch bool
	// onEvent is the online-oracle callback, invoked for every event in arrival order.
	onEvent func(e *Event)
	// onPark is invoked for every new park.
	onPark func(p *Park)
	// atAbort: called (each in its own goroutine) when the world is unwound, e.g. to stop a polling
	// loop that would otherwise keep the bubble alive for ever.
	atAbort []func()
}

func NewCtl(ch *Choices) *Ctl {
	return &Ctl{
		T0:       time.Now(),
		Ch:       ch,
		reports:  make(chan report, 1<<16),
		Counters: map[string]int{},
	}
}

func (c *Ctl) Now() time.Duration { return time.Since(c.T0) }

func (c *Ctl) Count(k string) { c.Counters[k]++ }

// Violate records an oracle violation.
func (c *Ctl) Violate(prop, rule, format string, args ...interface{}) {
	c.Viol = append(c.Viol, Violation{Prop: prop, Rule: rule, Msg: fmt.Sprintf(format, args...), Seq: len(c.Events)})
}

// ---- called from managed goroutines ----

// Yield parks the calling goroutine until the controller releases it.
func (c *Ctl) Yield(kind, key string, data interface{}) (*Park, Action) {
	if atomic.LoadInt32(&c.aborting) != 0 {
		return nil, Action{Kind: "abort"}
	}
	p := &Park{Kind: kind, Key: key, Data: data, resume: make(chan Action, 1), GID: curGID()}
	c.reports <- report{park: p, at: c.Now()}
	return p, <-p.resume
}

// YieldOr parks until released or until done is closed; in the latter case
// the park is retracted and ok=false.
func (c *Ctl) YieldOr(kind, key string, data interface{}, done <-chan struct{}) (Action, bool) {
	if atomic.LoadInt32(&c.aborting) != 0 {
		return Action{Kind: "abort"}, true
	}
	p := &Park{Kind: kind, Key: key, Data: data, resume: make(chan Action, 1), GID: curGID()}
	c.reports <- report{park: p, at: c.Now()}
	select {
	case a := <-p.resume:
		return a, true
	case <-done:
		c.reports <- report{retract: p, at: c.Now()}
		return Action{}, false
	}
}

func (c *Ctl) Note(kind, subject, detail string) {
	c.reports <- report{ev: &Event{Kind: kind, Subject: subject, Detail: detail}, at: c.Now()}
}

func (c *Ctl) NoteData(kind, subject, detail string, data interface{}) {
	c.reports <- report{ev: &Event{Kind: kind, Subject: subject, Detail: detail, Data: data}, at: c.Now()}
}

// ---- controller side ----

func (c *Ctl) addEvent(e *Event) *Event {
	return c.addEventAt(e, c.Now())
}

func (c *Ctl) addEventAt(e *Event, at time.Duration) *Event {
	e.Seq = len(c.Events)
	e.Batch = c.batch
	e.At = at
	c.Events = append(c.Events, *e)
	ep := &c.Events[len(c.Events)-1]
	if c.onEvent != nil {
		c.onEvent(ep)
	}
	return ep
}

// LogCtl records a controller-originated event (release, time advance, fault).
func (c *Ctl) LogCtl(kind, subject, detail string) {
	c.addEvent(&Event{Kind: kind, Subject: subject, Detail: detail})
}

func (c *Ctl) drain() int {
	n := 0
	var newParks []*Park
	for {
		select {
		case r := <-c.reports:
			n++
			c.Reported++
			switch {
			case r.park != nil:
				p := r.park
				ev := c.addEventAt(&Event{Kind: "park:" + p.Kind, Subject: p.Key, Data: p.Data}, r.at)
				p.Seq = ev.Seq
				p.At = ev.At
				newParks = append(newParks, p)
			case r.retract != nil:
				found := false
				for i, q := range c.Parked {
					if q == r.retract {
						c.Parked = append(c.Parked[:i], c.Parked[i+1:]...)
						found = true
						break
					}
				}
				if !found {
					for i, q := range newParks {
						if q == r.retract {
							newParks = append(newParks[:i], newParks[i+1:]...)
							break
						}
					}
				}
				c.addEventAt(&Event{Kind: "retract:" + r.retract.Kind, Subject: r.retract.Key, Data: r.retract.Data}, r.at)
			case r.ev != nil:
				c.addEventAt(r.ev, r.at)
			}
		default:
			if len(newParks) > 0 {
				c.Parked = append(c.Parked, newParks...)
				sort.SliceStable(c.Parked, func(i, j int) bool {
					a, b := c.Parked[i], c.Parked[j]
					if a.Kind != b.Kind {
						return a.Kind < b.Kind
					}
					return a.Key < b.Key
				})
				if c.onPark != nil {
					for _, p := range newParks {
						c.onPark(p)
					}
				}
			}
			return n
		}
	}
}

// Quiesce waits until every goroutine in the bubble is durably blocked and
// collects what they reported. Not allowed during limbo.
func (c *Ctl) Quiesce() {
	if c.limbo > 0 {
		panic("verifsim: Quiesce during limbo")
	}
	synctest.Wait()
	if !c.holdBatch {
		c.batch++
	}
	c.drain()
}

// Advance moves the simulated clock forward by d and lets everything that
// becomes runnable in that interval run.
func (c *Ctl) Advance(d time.Duration) {
	if c.limbo > 0 {
		panic("verifsim: Advance during limbo")
	}
	c.LogCtl("advance", "", d.String())
	time.Sleep(d)
	c.Quiesce()
}

// Sleep moves the simulated clock without observing: the next Quiesce (same batch as whatever
// follows) collects what happened meanwhile.
func (c *Ctl) Sleep(d time.Duration) {
	if c.limbo > 0 {
		panic("verifsim: Sleep during limbo")
	}
	c.LogCtl("advance", "", d.String())
	time.Sleep(d)
}

// Release lets exactly one parked goroutine continue with the given action.
func (c *Ctl) Release(p *Park, a Action) {
	for i, q := range c.Parked {
		if q == p {
			c.Parked = append(c.Parked[:i], c.Parked[i+1:]...)
			break
		}
	}
	det := a.Kind
	switch a.Kind {
	case "exit":
		det = fmt.Sprintf("exit %d", a.Code)
	case "write":
		det = fmt.Sprintf("write %d %dB", a.Stream, len(a.Data))
	case "dielater":
		det = fmt.Sprintf("dielater %s", a.D)
	}
	c.LogCtl("release:"+p.Kind, p.Key, det)
	p.resume <- a
}

// ParkedOf returns the parked items of the given kind(s), in canonical order.
func (c *Ctl) ParkedOf(kinds ...string) []*Park {
	var out []*Park
	for _, p := range c.Parked {
		for _, k := range kinds {
			if p.Kind == k {
				out = append(out, p)
				break
			}
		}
	}
	return out
}

// Abort releases everything still parked and makes all future park points
// pass through; used to unwind the world at the end of a run.
func (c *Ctl) Abort() {
	atomic.StoreInt32(&c.aborting, 1)
	for _, f := range c.atAbort {
		go f()
	}
	for round := 0; round < 200; round++ {
		for _, p := range c.Parked {
			p.resume <- Action{Kind: "abort"}
		}
		c.Parked = nil
		if c.limbo > 0 {
			return
		}
		synctest.Wait()
		if c.drain() == 0 && len(c.Parked) == 0 {
			// let timers (scheduler pause, kill delays) elapse until nothing moves
			time.Sleep(3 * time.Second)
			synctest.Wait()
			if c.drain() == 0 && len(c.Parked) == 0 {
				return
			}
		}
	}
}

// CanonicalHash hashes the history without simulated timestamps, events of
// one quiescence batch sorted, so that runtime-chosen orders inside a batch
// (map iteration, goroutine wake-up) do not show.
func (c *Ctl) CanonicalHash() string {
	h := sha256.New()
	for _, l := range c.CanonicalLog() {
		h.Write([]byte(l))
		h.Write([]byte{'\n'})
	}
	return hex.EncodeToString(h.Sum(nil))[:16]
}

func (c *Ctl) CanonicalLog() []string {
	var out []string
	i := 0
	for i < len(c.Events) {
		j := i
		var grp []string
		for j < len(c.Events) && c.Events[j].Batch == c.Events[i].Batch {
			e := c.Events[j]
			// excluded: clock steps, and everything about context `down` commands (Finish walks a
			// sync.Map, so the order in which contexts are taken down is runtime-chosen)
			if e.Kind != "advance" && !strings.HasPrefix(e.Kind, "nc:") && !strings.Contains(e.Subject, "/down/") {
				grp = append(grp, e.Kind+" "+e.Subject+" "+e.Detail)
			}
			j++
		}
		sort.Strings(grp)
		out = append(out, grp...)
		i = j
	}
	return out
}

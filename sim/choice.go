package verifsim

import (
	"fmt"
	"os"
)

// traceFile, when set (VSIM_TRACE_FILE), receives every drawn value as it is drawn, so that the
// choice list of a run that kills the process can be recovered.
var traceFile *os.File

// Choice source: every random decision of a run (world generation, schedule,
// faults) is one bounded integer drawn here. A run is a pure function of the
// sequence of drawn values, so the recorded sequence is the replay file and
// delta-debugging over it is the minimiser. Value 0 is always the simplest
// option at every call site.

type Choice struct {
	N     int    `json:"n"`
	V     int    `json:"v"`
	Label string `json:"l"`
}

type Choices struct {
	seed      uint64
	state     uint64
	replay    []int
	replaying bool
	pos       int
	Trace     []Choice
}

func NewRandomChoices(seed uint64) *Choices {
	return &Choices{seed: seed, state: seed*0x9E3779B97F4A7C15 + 0x1234567}
}

func NewReplayChoices(vals []int) *Choices {
	return &Choices{replay: vals, replaying: true}
}

// Reseed switches the PRNG stream (no effect on replay): used to combine one
// world with several schedules while keeping a single recorded choice list.
func (c *Choices) Reseed(seed uint64) {
	c.state = seed*0x9E3779B97F4A7C15 + 0x7654321
}

func (c *Choices) next64() uint64 {
	// splitmix64
	c.state += 0x9E3779B97F4A7C15
	z := c.state
	z = (z ^ (z >> 30)) * 0xBF58476D1CE4E5B9
	z = (z ^ (z >> 27)) * 0x94D049BB133111EB
	return z ^ (z >> 31)
}

// Choose returns a value in [0,n). n<=1 returns 0 without consuming anything.
func (c *Choices) Choose(n int, label string) int {
	if n <= 1 {
		return 0
	}
	var v int
	if c.replaying {
		if c.pos < len(c.replay) {
			v = c.replay[c.pos] % n
			if v < 0 {
				v = -v
			}
		}
		c.pos++
	} else {
		v = int(c.next64() % uint64(n))
	}
	c.Trace = append(c.Trace, Choice{N: n, V: v, Label: label})
	if traceFile != nil {
		fmt.Fprintf(traceFile, "%d\n", v)
	}
	return v
}

// Weighted picks an index with probability proportional to w[i]; index order
// is preserved so that value 0 maps to the first option with non-zero weight.
func (c *Choices) Weighted(w []int, label string) int {
	total := 0
	for _, x := range w {
		if x > 0 {
			total += x
		}
	}
	if total == 0 {
		return 0
	}
	v := c.Choose(total, label)
	for i, x := range w {
		if x <= 0 {
			continue
		}
		if v < x {
			return i
		}
		v -= x
	}
	return len(w) - 1
}

// Bool is true with probability num/den; false is the simple option.
func (c *Choices) Bool(num, den int, label string) bool {
	if num <= 0 {
		return false
	}
	if num >= den {
		return true
	}
	// map so that 0 => false
	v := c.Choose(den, label)
	return v >= den-num
}

// Range returns lo..hi inclusive, lo being the simple option.
func (c *Choices) Range(lo, hi int, label string) int {
	if hi <= lo {
		return lo
	}
	return lo + c.Choose(hi-lo+1, label)
}

func (c *Choices) Values() []int {
	out := make([]int, len(c.Trace))
	for i, x := range c.Trace {
		out[i] = x.V
	}
	return out
}

// Perm returns a permutation of 0..n-1; all-zero choices give the identity.
func (c *Choices) Perm(n int, label string) []int {
	p := make([]int, n)
	for i := range p {
		p[i] = i
	}
	for i := 0; i < n-1; i++ {
		j := i + c.Choose(n-i, label)
		p[i], p[j] = p[j], p[i]
	}
	return p
}

package verifsim

import (
	"fmt"
	"sort"
	"strings"
	"time"

	"github.com/taskctl/taskctl/pkg/runner"
	"github.com/taskctl/taskctl/pkg/task"
	"github.com/taskctl/taskctl/pkg/variables"
)

// ---- world description for INTEG runs (pure data) ----

type Chunk struct {
	Stream int    `json:"s"` // 1 stdout, 2 stderr
	Data   []byte `json:"d"`
}

// ExecPlan is the behaviour of one simulated process.
type ExecPlan struct {
	Exit     int     `json:"exit,omitempty"`
	NotFound bool    `json:"nf,omitempty"`
	Chunks   []Chunk `json:"chunks,omitempty"`
	DurMS    int     `json:"dur_ms,omitempty"` // may complete only this long after it started; <0: stalls for ever
	Intr     string  `json:"intr,omitempty"`   // on interrupt: "" die at once | "later" die after IntrMS (ignores SIGINT, killed) | "exit" exits with IntrCode
	IntrMS   int     `json:"intr_ms,omitempty"`
	IntrCode int     `json:"intr_code,omitempty"`
}

type TaskSpec struct {
	Name    string `json:"name"`
	Context string `json:"ctx,omitempty"`
	NCmd    int    `json:"ncmd"`
	NVar    int    `json:"nvar,omitempty"`
	// BlankAt: 1-based position at which an empty command entry ("") is declared among the commands
	// (a no-op); 0 = none
	BlankAt int `json:"blankat,omitempty"`
	// BgPrefix: commands that start with a background statement ("true & <command>")
	BgPrefix map[int]bool `json:"bgprefix,omitempty"`
	// EmptyVar: 1-based index of a variation that is declared empty (`{}`: "run once with the
	// defaults, then once per override"); 0 = none. Its commands carry no variation marker.
	EmptyVar    int               `json:"emptyvar,omitempty"`
	NBefore     int               `json:"nbefore,omitempty"`
	NAfter      int               `json:"nafter,omitempty"`
	Cond        bool              `json:"cond,omitempty"`
	Allow       bool              `json:"allow,omitempty"`
	TimeoutMS   int               `json:"timeout_ms,omitempty"`
	ExportAs    string            `json:"export_as,omitempty"`
	Env         map[string]string `json:"env,omitempty"`
	Vars        map[string]string `json:"vars,omitempty"`
	Dir         string            `json:"dir,omitempty"`
	Interactive bool              `json:"interactive,omitempty"`
	// HookText overrides the text of a hook command, keyed "before/0", "after/1" (it must still
	// invoke `sim <name> <block> <i> ...`)
	HookText map[string]string `json:"hooktext,omitempty"`
	// VarExtra: extra key/value pairs put into every variation map (values are literal text, even
	// when they look like templates)
	VarExtra map[string]string `json:"var_extra,omitempty"`
	// CmdText overrides the text of command i (default "sim <name> cmd <i>"); the text
	// must still invoke `sim <name> cmd <i> ...` so that the exec is attributable.
	CmdText map[int]string `json:"cmdtext,omitempty"`
}

type CtxSpec struct {
	Name    string `json:"name"`
	NUp     int    `json:"nup,omitempty"`
	NDown   int    `json:"ndown,omitempty"`
	NBefore int    `json:"nbefore,omitempty"`
	NAfter  int    `json:"nafter,omitempty"`
	// Vars: variables declared on the context (config-built worlds); they never outrank a task's or
	// a stage's variable of the same name
	Vars map[string]string `json:"vars,omitempty"`
}

type DriverSpec struct {
	Kind   string `json:"kind"` // "task" | "pipeline"
	Target string `json:"target"`
}

type IntegWorld struct {
	Tasks       []*TaskSpec          `json:"tasks"`
	Contexts    []*CtxSpec           `json:"contexts,omitempty"`
	Plans       map[string]*ExecPlan `json:"plans,omitempty"`
	Graph       *GraphSpec           `json:"graph,omitempty"`
	Drivers     []DriverSpec         `json:"drivers"`
	Format      string               `json:"format"`
	NFaults     int                  `json:"nfaults,omitempty"`
	FinishTwice bool                 `json:"finish_twice,omitempty"`
	Sequential  bool                 `json:"sequential,omitempty"` // drivers run one after another
	// ViaConfig: tasks, pipelines are written to a configuration file and built by the real
	// config loader instead of through the Go API (C08, CLI).
	ViaConfig bool `json:"via_config,omitempty"`
	// CLI: the world is run through the in-process command line (makeApp().Run) with these arguments
	// after `taskctl -c <file> --output raw`.
	CLIArgs     []string     `json:"cli_args,omitempty"`
	ExtraGraphs []*GraphSpec `json:"extra_graphs,omitempty"`
}

func (w *IntegWorld) AllGraphs() []*GraphSpec {
	var out []*GraphSpec
	if w.Graph != nil {
		out = append(out, w.Graph)
	}
	return append(out, w.ExtraGraphs...)
}

func (w *IntegWorld) GraphByName(n string) *GraphSpec {
	for _, g := range w.AllGraphs() {
		if g.Name == n {
			return g
		}
	}
	return nil
}

func (w *IntegWorld) Task(name string) *TaskSpec {
	for _, t := range w.Tasks {
		if t.Name == name {
			return t
		}
	}
	return nil
}

func (w *IntegWorld) Ctx(name string) *CtxSpec {
	for _, c := range w.Contexts {
		if c.Name == name {
			return c
		}
	}
	return nil
}

var defaultPlan = &ExecPlan{}

func (w *IntegWorld) Plan(id string) *ExecPlan {
	if p, ok := w.Plans[id]; ok {
		return p
	}
	return defaultPlan
}

// PlanFor: the behaviour of command `id` when it is executed on behalf of execution `who` (a stage
// name); a plan keyed "id@who" lets the same command of a shared task behave differently per stage.
func (w *IntegWorld) PlanFor(id, who string) *ExecPlan {
	if who != "" {
		if p, ok := w.Plans[id+"@"+who]; ok {
			return p
		}
	}
	return w.Plan(id)
}

func (w *IntegWorld) Summary() string {
	var parts []string
	for _, t := range w.Tasks {
		s := fmt.Sprintf("%s[c%d", t.Name, t.NCmd)
		if t.NVar > 0 {
			s += fmt.Sprintf("x%d", t.NVar)
		}
		if t.NBefore > 0 {
			s += fmt.Sprintf(" b%d", t.NBefore)
		}
		if t.NAfter > 0 {
			s += fmt.Sprintf(" a%d", t.NAfter)
		}
		if t.Cond {
			s += " cond"
		}
		if t.Allow {
			s += " allow"
		}
		if t.TimeoutMS > 0 {
			s += fmt.Sprintf(" to=%dms", t.TimeoutMS)
		}
		if t.Context != "" {
			s += " @" + t.Context
		}
		s += "]"
		parts = append(parts, s)
	}
	out := strings.Join(parts, " ")
	for _, c := range w.Contexts {
		out += fmt.Sprintf(" ctx:%s[up%d down%d b%d a%d]", c.Name, c.NUp, c.NDown, c.NBefore, c.NAfter)
	}
	for _, g := range w.AllGraphs() {
		out += " graph:" + g.String()
	}
	var ds []string
	for _, d := range w.Drivers {
		ds = append(ds, d.Kind+":"+d.Target)
	}
	out += " drivers:" + strings.Join(ds, ",")
	var faulty []string
	for id, p := range w.Plans {
		if p.Exit != 0 || p.NotFound || p.DurMS != 0 || p.Intr != "" {
			f := id + "="
			if p.NotFound {
				f += "nf"
			} else if p.Exit != 0 {
				f += fmt.Sprint(p.Exit)
			}
			if p.DurMS != 0 {
				f += fmt.Sprintf("~%dms", p.DurMS)
			}
			if p.Intr != "" {
				f += "!" + p.Intr
			}
			faulty = append(faulty, f)
		}
	}
	sort.Strings(faulty)
	if len(faulty) > 0 {
		out += " plans:" + strings.Join(faulty, ",")
	}
	out += " fmt:" + w.Format
	return out
}

// ---- exec identities ----

func execID(owner, block string, i int, variation string) string {
	id := fmt.Sprintf("%s/%s/%d", owner, block, i)
	if variation != "" {
		id += "/" + variation
	}
	return id
}

func cmdText(owner, block string, i int) string {
	return fmt.Sprintf("sim %s %s %d", owner, block, i)
}

func variationName(k int) string { return fmt.Sprintf("v%d", k) }

// VarName: the marker the commands of variation k carry ("" for the empty variation).
func (t *TaskSpec) VarName(k int) string {
	if t.EmptyVar == k+1 {
		return ""
	}
	return variationName(k)
}

// ---- building the real objects ----

func buildRealTask(ts *TaskSpec) *task.Task {
	t := task.NewTask()
	t.Name = ts.Name
	t.Context = ts.Context
	for i := 0; i < ts.NCmd; i++ {
		if ts.BlankAt == i+1 {
			t.Commands = append(t.Commands, "")
		}
		txt, ok := ts.CmdText[i]
		if !ok {
			txt = cmdText(ts.Name, "cmd", i)
		}
		if ts.BgPrefix[i] {
			// a background job (a builtin: nothing to simulate) in front of the command proper; the
			// command's exit status is that of its last statement
			txt = "true & " + txt
		}
		t.Commands = append(t.Commands, txt)
	}
	for i := 0; i < ts.NBefore; i++ {
		if txt, ok := ts.HookText[fmt.Sprintf("before/%d", i)]; ok {
			t.Before = append(t.Before, txt)
		} else {
			t.Before = append(t.Before, cmdText(ts.Name, "before", i))
		}
	}
	for i := 0; i < ts.NAfter; i++ {
		if txt, ok := ts.HookText[fmt.Sprintf("after/%d", i)]; ok {
			t.After = append(t.After, txt)
		} else {
			t.After = append(t.After, cmdText(ts.Name, "after", i))
		}
	}
	t.Interactive = ts.Interactive
	if ts.Cond {
		t.Condition = cmdText(ts.Name, "cond", 0)
	}
	for k := 0; k < ts.NVar; k++ {
		if ts.EmptyVar == k+1 {
			t.Variations = append(t.Variations, map[string]string{})
			continue
		}
		m := map[string]string{"VS_VAR": variationName(k)}
		for n, v := range ts.VarExtra {
			m[n] = v
		}
		t.Variations = append(t.Variations, m)
	}
	t.AllowFailure = ts.Allow
	if ts.TimeoutMS > 0 {
		d := time.Duration(ts.TimeoutMS) * time.Millisecond
		t.Timeout = &d
	}
	t.ExportAs = ts.ExportAs
	if ts.Env != nil {
		t.Env = variables.FromMap(ts.Env)
	}
	if ts.Vars != nil {
		t.Variables = variables.FromMap(ts.Vars)
	}
	t.Dir = ts.Dir
	return t
}

func buildRealContext(cs *CtxSpec) *runner.ExecutionContext {
	mk := func(block string, n int) []string {
		var out []string
		for i := 0; i < n; i++ {
			out = append(out, cmdText("ctx:"+cs.Name, block, i))
		}
		return out
	}
	return runner.NewExecutionContext(nil, "", variables.FromMap(map[string]string{"VS_CTX": cs.Name}),
		mk("up", cs.NUp), mk("down", cs.NDown), mk("before", cs.NBefore), mk("after", cs.NAfter))
}

// ---- reference model of one task execution (C06/C07/C11), pure ----

type TaskExpect struct {
	TimedOut     bool     // a command was killed by the task's timeout
	Seq          []string // exec ids of the task's own commands (cond, before, cmd, after) in order
	OptionalFrom int      // entries from this index on are optional (after a failing `after` hook); -1 = none
	Skipped      bool
	Failed       bool // Run returns an error
	CmdFailed    bool // a command (not a hook) failed without allow_failure
	ExitCode     int  // status of the failing command when CmdFailed
	Stdout       []byte
	Complete     bool // all commands ran
}

func stdoutOf(p *ExecPlan) []byte {
	var out []byte
	for _, ch := range p.Chunks {
		if ch.Stream == 1 {
			out = append(out, ch.Data...)
		}
	}
	return out
}

func planExit(p *ExecPlan) int {
	if p.NotFound {
		return 127
	}
	return p.Exit
}

// ModelTask computes what a single execution of t must look like.
func ModelTask(w *IntegWorld, t *TaskSpec) *TaskExpect { return ModelTaskFor(w, t, "") }

// ModelTaskFor: the execution of t on behalf of `who` (per-stage plans of a shared task).
func ModelTaskFor(w *IntegWorld, t *TaskSpec, who string) *TaskExpect {
	x := &TaskExpect{OptionalFrom: -1}
	if cs := w.Ctx(t.Context); t.Context != "" && cs != nil {
		for k := 0; k < cs.NUp; k++ {
			if planExit(w.Plan(execID("ctx:"+cs.Name, "up", k, ""))) != 0 {
				// the context cannot be brought up: the task fails without running anything
				x.Failed = true
				return x
			}
		}
		for k := 0; k < cs.NBefore; k++ {
			if planExit(w.Plan(execID("ctx:"+cs.Name, "before", k, ""))) != 0 {
				// the context's before hook fails: same
				x.Failed = true
				return x
			}
		}
	}
	if t.Cond {
		id := execID(t.Name, "cond", 0, "")
		x.Seq = append(x.Seq, id)
		if planExit(w.PlanFor(id, who)) != 0 {
			x.Skipped = true
			return x
		}
	}
	for i := 0; i < t.NBefore; i++ {
		id := execID(t.Name, "before", i, "")
		x.Seq = append(x.Seq, id)
		if planExit(w.PlanFor(id, who)) != 0 {
			x.Failed = true
			return x
		}
	}
	nv := t.NVar
	vars := []string{""}
	if nv > 0 {
		vars = nil
		for k := 0; k < nv; k++ {
			vars = append(vars, t.VarName(k))
		}
	}
	for _, v := range vars {
		for i := 0; i < t.NCmd; i++ {
			id := execID(t.Name, "cmd", i, v)
			x.Seq = append(x.Seq, id)
			p := w.PlanFor(id, who)
			if t.TimeoutMS > 0 && p.DurMS < 0 {
				// never finishes by itself: killed by the task's timeout - the task failed, also
				// when it allows failure, and nothing of it runs afterwards
				x.Failed = true
				x.TimedOut = true
				return x
			}
			x.Stdout = append(x.Stdout, stdoutOf(p)...)
			if e := planExit(p); e != 0 && !t.Allow {
				x.Failed = true
				x.CmdFailed = true
				x.ExitCode = e
				return x
			}
		}
	}
	x.Complete = true
	for i := 0; i < t.NAfter; i++ {
		id := execID(t.Name, "after", i, "")
		x.Seq = append(x.Seq, id)
		if planExit(w.PlanFor(id, who)) != 0 && x.OptionalFrom < 0 {
			x.OptionalFrom = len(x.Seq)
		}
	}
	return x
}

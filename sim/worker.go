package verifsim

import (
	"bufio"
	"encoding/json"
	"fmt"
	"io/ioutil"
	"os"
	"runtime"
	"runtime/debug"
	"strings"
	"sync"
	"sync/atomic"
	"testing"
	"testing/synctest"
	"time"

	"github.com/sirupsen/logrus"
)

// Job is what the supervisor hands to a worker process (env VSIM_JOB).
type Job struct {
	Engine   string   `json:"engine"`
	Prop     string   `json:"prop"`
	Profile  string   `json:"profile"`
	Tier     string   `json:"tier"`
	Base     uint64   `json:"base"`
	Worker   int      `json:"worker"`
	Workers  int      `json:"workers"`
	Start    int      `json:"start"` // first global index
	Count    int      `json:"count"` // max runs for this worker (0 = until budget)
	BudgetS  float64  `json:"budget_s"`
	Replay   string   `json:"replay"` // replay file: run exactly this choice list
	Indices  []int    `json:"indices"`
	Full     bool     `json:"full"` // emit the full event log and choice trace
	Samples  int      `json:"samples"`
	Opts     []string `json:"opts"`
	WatchdgS float64  `json:"watchdog_s"`
}

type RunResult struct {
	Type       string         `json:"type"`
	Index      int            `json:"index"`
	Seed       uint64         `json:"seed"`
	Engine     string         `json:"engine"`
	Profile    string         `json:"profile"`
	Viol       []Violation    `json:"viol,omitempty"`
	Hash       string         `json:"hash"`
	NonTrivial bool           `json:"nontrivial"`
	SimNS      int64          `json:"sim_ns"`
	Steps      int            `json:"steps"`
	NChoices   int            `json:"nchoices"`
	Counters   map[string]int `json:"counters,omitempty"`
	Skipped    string         `json:"skipped,omitempty"`
	WorldIdx   int            `json:"world"`
	Outcome    string         `json:"outcome,omitempty"`
	Sample     interface{}    `json:"sample,omitempty"`
	Choices    []int          `json:"choices,omitempty"`
	Labels     []string       `json:"labels,omitempty"`
	Log        []string       `json:"log,omitempty"`
	Panic      string         `json:"panic,omitempty"`
	HarnessErr string         `json:"harness_err,omitempty"`
	WallUS     int64          `json:"wall_us"`
}

// ReplayFile is the on-disk format of a reported failure.
type ReplayFile struct {
	Engine    string     `json:"engine"`
	Property  string     `json:"property"`
	Profile   string     `json:"profile"`
	Tier      string     `json:"tier"`
	Index     int        `json:"index"`
	Seed      uint64     `json:"seed"`
	Choices   []int      `json:"choices"`
	Labels    []string   `json:"labels,omitempty"`
	Violation *Violation `json:"violation"`
	LogSHA    string     `json:"log_hash"`
	Opts      []string   `json:"opts,omitempty"`
}

var outMu sync.Mutex
var outW *bufio.Writer

func emit(v interface{}) {
	outMu.Lock()
	defer outMu.Unlock()
	b, err := json.Marshal(v)
	if err != nil {
		b = []byte(fmt.Sprintf(`{"type":"harness_error","err":%q}`, err.Error()))
	}
	// a leading newline: third-party code (the cockpit spinner) may have left a partial line on stdout
	outW.WriteByte('\n')
	outW.Write(b)
	outW.WriteByte('\n')
	outW.Flush()
}

func seedFor(base uint64, idx int) uint64 {
	z := base + uint64(idx+1)*0x9E3779B97F4A7C15
	z = (z ^ (z >> 30)) * 0xBF58476D1CE4E5B9
	z = (z ^ (z >> 27)) * 0x94D049BB133111EB
	return z ^ (z >> 31)
}

// CLIHooks is filled by the glue test in package main (cmd/taskctl).
type CLIHooksT struct {
	RunApp      func(args []string) error // makeApp().Run(args)
	ResetCancel func()                    // re-make the package-level cancel channel inside the bubble
	Abort       func()                    // abort()
}

var CLIHooks CLIHooksT

// simLogHook turns log lines into park points for goroutines the engine has registered (the
// goroutines that call Cancel): a log call is a place where the Go scheduler may well switch.
type simLogHook struct{}

var logYield atomic.Value // func(msg string)

func (simLogHook) Levels() []logrus.Level { return logrus.AllLevels }

func (simLogHook) Fire(e *logrus.Entry) error {
	if f, _ := logYield.Load().(func(string)); f != nil {
		f(e.Message)
	}
	return nil
}

// WorkerMain is the entry point of a worker process.
func WorkerMain(t *testing.T) {
	outW = bufio.NewWriter(os.Stdout)
	raw := os.Getenv("VSIM_JOB")
	if raw == "" {
		t.Skip("VSIM_JOB not set")
		return
	}
	defer os.RemoveAll(scratchRoot()) // configuration files, watch trees, condition scripts of this process
	var job Job
	if err := json.Unmarshal([]byte(raw), &job); err != nil {
		emit(map[string]string{"type": "harness_error", "err": "bad VSIM_JOB: " + err.Error()})
		return
	}
	if tf := os.Getenv("VSIM_TRACE_FILE"); tf != "" {
		traceFile, _ = os.Create(tf)
	}
	// everything the code under test prints to the process's stdout (summaries, spinner frames)
	// goes to /dev/null; the worker protocol keeps the original descriptor
	if dn, err := os.OpenFile(os.DevNull, os.O_WRONLY, 0); err == nil {
		os.Stdout = dn
	}
	logrus.SetOutput(ioutil.Discard)
	logrus.SetLevel(logrus.PanicLevel)
	logrus.AddHook(simLogHook{})
	// hooks are fired under the logger's mutex; a hook that parks would block every other goroutine
	// that logs. The output is discarded and the simulator runs one goroutine at a time: no lock.
	logrus.StandardLogger().SetNoLock()
	logYield.Store((func(string))(nil))
	if job.WatchdgS <= 0 {
		job.WatchdgS = 60
	}
	deadline := time.Now().Add(time.Duration(job.BudgetS * float64(time.Second)))

	if job.Replay != "" {
		b, err := ioutil.ReadFile(job.Replay)
		if err != nil {
			emit(map[string]string{"type": "harness_error", "err": err.Error()})
			return
		}
		var rf ReplayFile
		if err := json.Unmarshal(b, &rf); err != nil {
			emit(map[string]string{"type": "harness_error", "err": err.Error()})
			return
		}
		job.Engine, job.Profile, job.Tier = rf.Engine, rf.Profile, rf.Tier
		if job.Prop == "" {
			job.Prop = rf.Property
		}
		job.Opts = rf.Opts
		emit(map[string]interface{}{"type": "begin", "index": rf.Index, "seed": rf.Seed})
		res := runOne(t, &job, rf.Index, rf.Seed, NewReplayChoices(rf.Choices))
		emit(res)
		return
	}

	n := 0
	next := func() (int, bool) {
		if len(job.Indices) > 0 {
			if n >= len(job.Indices) {
				return 0, false
			}
			return job.Indices[n], true
		}
		if job.Count > 0 && n >= job.Count {
			return 0, false
		}
		if job.BudgetS > 0 && time.Now().After(deadline) {
			return 0, false
		}
		if job.Count == 0 && job.BudgetS <= 0 {
			return 0, false
		}
		return job.Start + job.Worker + n*job.Workers, true
	}
	for {
		idx, ok := next()
		if !ok {
			break
		}
		n++
		seed := seedFor(job.Base, idx)
		emit(map[string]interface{}{"type": "begin", "index": idx, "seed": seed})
		res := runOne(t, &job, idx, seed, NewRandomChoices(seed))
		if job.Samples > 0 && n > job.Samples && !job.Full {
			res.Sample = nil
		}
		emit(res)
		if n%500 == 0 {
			debug.FreeOSMemory()
		}
	}
	emit(map[string]interface{}{"type": "done", "runs": n, "goroutines": runtime.NumGoroutine()})
}

func runOne(t *testing.T, job *Job, idx int, seed uint64, ch *Choices) (res *RunResult) {
	res = &RunResult{Type: "end", Index: idx, Seed: seed, Engine: job.Engine, Profile: job.Profile}
	t0 := time.Now()
	// real-time watchdog: a hang in real time is a harness/third-party problem, never a verdict
	stopWd := make(chan struct{})
	go func() {
		select {
		case <-stopWd:
		case <-time.After(time.Duration(job.WatchdgS * float64(time.Second))):
			buf := make([]byte, 1<<20)
			n := runtime.Stack(buf, true)
			emit(map[string]interface{}{"type": "watchdog", "index": idx, "seed": seed, "stacks": string(buf[:n])})
			os.RemoveAll(scratchRoot())
			os.Exit(3)
		}
	}()
	defer close(stopWd)

	resetUniq()
	var pre *watchPre
	if job.Engine == "watch" {
		pre = prepareWatch(ch, job, idx)
		defer pre.cleanup()
	}
	var c *Ctl
	func() {
		defer func() {
			if r := recover(); r != nil {
				msg := fmt.Sprint(r)
				if strings.Contains(msg, "deadlock") && strings.Contains(msg, "bubble") {
					// goroutines left blocked for ever inside the bubble at the end of the run
					if c != nil {
						c.Counters["leaked_blocked_goroutines"]++
					}
					return
				}
				res.Panic = msg + "\n" + string(debug.Stack())
			}
		}()
		synctest.Test(t, func(t *testing.T) {
			c = NewCtl(ch)
			defer func() {
				if r := recover(); r != nil {
					res.Panic = fmt.Sprint(r) + "\n" + string(debug.Stack())
				}
			}()
			if pre != nil {
				runWatchJob(c, job, idx, res, pre)
			} else {
				dispatch(c, job, idx, res)
			}
			res.SimNS = int64(c.Now())
			c.onEvent = nil
			c.onPark = nil
			c.Abort()
		})
	}()
	if c != nil {
		res.Viol = c.Viol
		res.Hash = c.CanonicalHash()
		res.Steps = c.Steps
		res.Counters = c.Counters
		res.NChoices = len(ch.Trace)
		if job.Full || len(c.Viol) > 0 {
			res.Choices = ch.Values()
		}
		if job.Full {
			for _, x := range ch.Trace {
				res.Labels = append(res.Labels, x.Label)
			}
			for _, e := range c.Events {
				res.Log = append(res.Log, fmt.Sprintf("%4d b%-3d %10s %-22s %s %s", e.Seq, e.Batch, e.At, e.Kind, e.Subject, e.Detail))
			}
		}
	}
	res.WallUS = time.Since(t0).Microseconds()
	return res
}

func hasOpt(job *Job, o string) bool {
	for _, x := range job.Opts {
		if x == o {
			return true
		}
	}
	return false
}

func dispatch(c *Ctl, job *Job, idx int, res *RunResult) {
	switch job.Engine {
	case "sched":
		runSchedJob(c, job, idx, res)
	case "integ":
		runIntegJob(c, job, idx, res)
	case "fault":
		runFaultJob(c, job, idx, res)
	case "cli":
		runCLIJob(c, job, idx, res)
	default:
		res.HarnessErr = "unknown engine " + job.Engine
	}
}

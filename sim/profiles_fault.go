package verifsim

import (
	"fmt"
	"sort"
	"strings"
)

// ---- C13: timeouts ----

const timeoutVariants = 64

type execPos struct {
	block string
	idx   int
	v     string
}

func taskPositions(t *TaskSpec) []execPos {
	var out []execPos
	for i := 0; i < t.NBefore; i++ {
		out = append(out, execPos{"before", i, ""})
	}
	vars := []string{""}
	if t.NVar > 0 {
		vars = nil
		for k := 0; k < t.NVar; k++ {
			vars = append(vars, t.VarName(k))
		}
	}
	for _, v := range vars {
		for i := 0; i < t.NCmd; i++ {
			out = append(out, execPos{"cmd", i, v})
		}
	}
	for i := 0; i < t.NAfter; i++ {
		out = append(out, execPos{"after", i, ""})
	}
	return out
}

var timeoutShapes = []string{"just-in-time", "stall", "ignore-sigint", "overrun-margin", "shell-loop", "none"}

// GenTimeoutWorld: one task with a timeout; variant selects which command overruns and how.
func GenTimeoutWorld(ch *Choices, variant int, thorough bool) (*IntegWorld, string) {
	w := &IntegWorld{Plans: map[string]*ExecPlan{}, Format: "raw"}
	t := &TaskSpec{Name: "t0"}
	t.TimeoutMS = []int{100, 150, 250, 400, 700, 1000}[ch.Choose(6, "timeout")]
	t.NCmd = ch.Range(1, 3, "ncmd")
	if ch.Bool(1, 3, "has-var") {
		t.NVar = 2
	}
	if ch.Bool(1, 2, "has-before") {
		t.NBefore = ch.Range(1, 2, "nbefore")
	}
	if ch.Bool(1, 2, "has-after") {
		t.NAfter = ch.Range(1, 2, "nafter")
	}
	t.Allow = ch.Bool(1, 2, "allow")
	w.Tasks = append(w.Tasks, t)
	pos := taskPositions(t)
	for _, p := range pos {
		// everything else finishes within the timeout, but the task as a whole may take longer than one timeout
		pl := &ExecPlan{DurMS: ch.Choose(t.TimeoutMS, "dur-in-time")}
		if p.block == "cmd" && ch.Bool(1, 8, "cmd-fails") {
			pl.Exit = genExit(ch)
		}
		w.Plans[execID(t.Name, p.block, p.idx, p.v)] = pl
	}
	which := pos[variant%len(pos)]
	shape := timeoutShapes[(variant/len(pos))%len(timeoutShapes)]
	if shape == "shell-loop" && which.block != "cmd" {
		shape = "stall"
	}
	id := execID(t.Name, which.block, which.idx, which.v)
	switch shape {
	case "just-in-time":
		w.Plans[id] = &ExecPlan{DurMS: t.TimeoutMS - 1}
	case "stall":
		w.Plans[id] = &ExecPlan{DurMS: -1}
	case "ignore-sigint":
		w.Plans[id] = &ExecPlan{DurMS: -1, Intr: "later", IntrMS: []int{1, 500, 1999, 2000}[ch.Choose(4, "kill-delay")]}
	case "overrun-margin":
		w.Plans[id] = &ExecPlan{DurMS: t.TimeoutMS + []int{1, 50, 1000, 5000}[ch.Choose(4, "margin")]}
	case "shell-loop":
		t.CmdText = map[int]string{which.idx: fmt.Sprintf("while true; do %s; done", cmdText(t.Name, "cmd", which.idx))}
		vars := []string{""}
		if t.NVar > 0 {
			vars = []string{variationName(0), variationName(1)}
		}
		for _, v := range vars {
			w.Plans[execID(t.Name, "cmd", which.idx, v)] = &ExecPlan{DurMS: t.TimeoutMS/3 + 1}
		}
	}
	w.Drivers = []DriverSpec{{Kind: "task", Target: "t0"}}
	if ch.Bool(1, 3, "sibling") {
		s := &TaskSpec{Name: "s1", NCmd: ch.Range(1, 3, "s-ncmd")}
		w.Tasks = append(w.Tasks, s)
		for i := 0; i < s.NCmd; i++ {
			w.Plans[execID("s1", "cmd", i, "")] = &ExecPlan{DurMS: ch.Choose(1500, "s-dur")}
		}
		w.Drivers = append(w.Drivers, DriverSpec{Kind: "task", Target: "s1"})
	}
	if ch.Bool(1, 2, "as-stage") {
		// a pipeline around it: a dependant of the task with the timeout and an independent chain,
		// so that what a timeout does to the rest of the run is visible
		g := &GraphSpec{Name: "root", Stages: []*StageSpec{{Name: "t0", Allow: ch.Bool(1, 2, "stage-allow")}}}
		if len(w.Tasks) > 1 {
			g.Stages = append(g.Stages, &StageSpec{Name: "s1"})
		}
		add := func(name string, deps ...string) {
			w.Tasks = append(w.Tasks, &TaskSpec{Name: name, NCmd: 1})
			w.Plans[execID(name, "cmd", 0, "")] = &ExecPlan{DurMS: ch.Choose(400, "aux-dur")}
			g.Stages = append(g.Stages, &StageSpec{Name: name, Deps: deps})
		}
		add("d1", "t0")
		if ch.Bool(1, 2, "chain") {
			add("i1")
			add("i2", "i1")
		}
		w.Graph = g
		w.Drivers = []DriverSpec{{Kind: "pipeline", Target: "root"}}
		if ch.Bool(1, 2, "via-config") {
			// built by the configuration loader, optionally with a stage-level dir
			w.ViaConfig = true
			if ch.Bool(1, 2, "stage-dir") {
				g.Stages[0].Dir = "/vs/t0dir"
			}
			if ch.Bool(1, 2, "named-context") {
				// the task runs in a context from the configuration file (it only sets an environment
				// variable): the timeout applies there as anywhere else
				w.Contexts = []*CtxSpec{{Name: "cx"}}
				w.Task("t0").Context = "cx"
			}
		}
	}
	return w, fmt.Sprintf("%s@%s", shape, id)
}

// ---- C12: cancellation ----

const cancelVariants = 24

func GenCancelWorld(ch *Choices, thorough bool) *IntegWorld {
	w := &IntegWorld{Plans: map[string]*ExecPlan{}, Format: "raw"}
	nPar := ch.Range(1, 4, "n-parallel")
	nWait := ch.Choose(4, "n-waiting")
	pipeline := nWait > 0 || ch.Bool(1, 2, "pipeline")
	var names []string
	for i := 0; i < nPar+nWait; i++ {
		names = append(names, fmt.Sprintf("t%d", i))
	}
	nctx := ch.Choose(3, "n-ctx")
	for i := 0; i < nctx; i++ {
		cs := &CtxSpec{Name: fmt.Sprintf("c%d", i), NUp: ch.Choose(3, "nup"), NDown: ch.Choose(3, "ndown"), NBefore: ch.Choose(2, "ncb"), NAfter: ch.Choose(2, "nca")}
		w.Contexts = append(w.Contexts, cs)
		for k := 0; k < cs.NUp; k++ {
			pl := &ExecPlan{DurMS: ch.Choose(80, "up-dur")}
			if ch.Bool(1, 8, "up-fails") {
				// the tasks of this context fail before they run anything; a later Cancel must still return
				pl.Exit = genExit(ch)
			}
			w.Plans[execID("ctx:"+cs.Name, "up", k, "")] = pl
		}
	}
	for _, nm := range names {
		t := &TaskSpec{Name: nm, NCmd: ch.Range(1, 3, "ncmd")}
		if ch.Bool(1, 4, "has-var") {
			t.NVar = 2
		}
		if ch.Bool(1, 3, "has-before") {
			t.NBefore = ch.Range(1, 2, "nbefore")
		}
		if ch.Bool(1, 3, "has-after") {
			t.NAfter = ch.Range(1, 2, "nafter")
		}
		t.Cond = ch.Bool(1, 6, "cond")
		t.Allow = ch.Bool(1, 4, "allow")
		if ch.Bool(1, 3, "has-timeout") {
			t.TimeoutMS = 600000 // never expires in these worlds; cancellation must still get through
		}
		if nctx > 0 && ch.Bool(1, 2, "in-ctx") {
			t.Context = w.Contexts[ch.Choose(nctx, "which-ctx")].Name
		}
		w.Tasks = append(w.Tasks, t)
		for _, p := range taskPositions(t) {
			pl := &ExecPlan{DurMS: ch.Choose(300, "dur")}
			if ch.Bool(1, 4, "ignores-sigint") {
				pl.Intr = "later"
				pl.IntrMS = []int{1, 300, 2000}[ch.Choose(3, "kill-delay")]
			}
			if p.block == "cmd" && ch.Bool(1, 10, "cmd-fails") {
				pl.Exit = genExit(ch)
			}
			w.Plans[execID(nm, p.block, p.idx, p.v)] = pl
		}
		if t.Cond {
			w.Plans[execID(nm, "cond", 0, "")] = &ExecPlan{DurMS: ch.Choose(100, "cond-dur"), Exit: []int{0, 0, 1}[ch.Choose(3, "cond-exit")]}
		}
	}
	if pipeline {
		g := &GraphSpec{Name: "root"}
		for i := 0; i < nPar; i++ {
			g.Stages = append(g.Stages, &StageSpec{Name: names[i], Allow: ch.Bool(1, 5, "stage-allow")})
		}
		for i := nPar; i < nPar+nWait; i++ {
			s := &StageSpec{Name: names[i]}
			// depends on one or two earlier stages
			d := ch.Choose(i, "dep")
			s.Deps = append(s.Deps, names[d])
			if i > 1 && ch.Bool(1, 3, "second-dep") {
				d2 := ch.Choose(i, "dep2")
				if d2 != d {
					s.Deps = append(s.Deps, names[d2])
				}
			}
			g.Stages = append(g.Stages, s)
		}
		if ch.Bool(1, 6, "missing-cond") {
			// one or two stages whose condition cannot be evaluated: the scheduling loop cancels the
			// run itself (twice, if it meets both in one pass)
			g.Stages[ch.Choose(len(g.Stages), "missing-which")].Cond = "missing"
			if ch.Bool(1, 2, "second-missing-cond") {
				g.Stages[ch.Choose(len(g.Stages), "missing-which-2")].Cond = "missing"
			}
		}
		w.Graph = g
		w.Drivers = []DriverSpec{{Kind: "pipeline", Target: "root"}}
	} else {
		for _, nm := range names {
			w.Drivers = append(w.Drivers, DriverSpec{Kind: "task", Target: nm})
		}
	}
	w.FinishTwice = ch.Bool(1, 3, "finish-twice")
	return w
}

// GenCondErrWorld: the cancellation comes from inside the run, in the middle of it. A nested
// pipeline (stage "n", started once its dependency finished) contains a stage whose condition
// cannot be evaluated; when the nested pipeline is scheduled the scheduler cancels the whole run
// while other stages - outside and inside the nested pipeline - have long commands in flight.
func GenCondErrWorld(ch *Choices) *IntegWorld {
	w := &IntegWorld{Plans: map[string]*ExecPlan{}, Format: "raw"}
	g := &GraphSpec{Name: "root"}
	addTask := func(name string, minMS, spanMS int) {
		t := &TaskSpec{Name: name, NCmd: ch.Range(1, 2, "ncmd")}
		if ch.Bool(1, 4, "has-before") {
			t.NBefore = 1
		}
		if ch.Bool(1, 4, "has-after") {
			t.NAfter = 1
		}
		w.Tasks = append(w.Tasks, t)
		for _, p := range taskPositions(t) {
			pl := &ExecPlan{}
			if p.block == "cmd" {
				pl.DurMS = minMS + ch.Choose(spanMS, "dur")
			}
			if ch.Bool(1, 5, "ignores-sigint") {
				pl.Intr = "later"
				pl.IntrMS = []int{1, 300}[ch.Choose(2, "kill-delay")]
			}
			w.Plans[execID(name, p.block, p.idx, p.v)] = pl
		}
	}
	ny := ch.Range(1, 3, "n-long-running")
	for i := 0; i < ny; i++ {
		nm := fmt.Sprintf("y%d", i)
		addTask(nm, 1500, 4000)
		g.Stages = append(g.Stages, &StageSpec{Name: nm, Allow: ch.Bool(1, 5, "stage-allow")})
	}
	n := &StageSpec{Name: "n"}
	if ch.Bool(3, 4, "nested-after-a-stage") {
		addTask("r0", 0, 400)
		g.Stages = append(g.Stages, &StageSpec{Name: "r0"})
		n.Deps = []string{"r0"}
	}
	inner := &GraphSpec{Name: "inner"}
	addTask("n.m", 0, 100)
	m := &StageSpec{Name: "n.m", Cond: "missing"}
	var in []*StageSpec
	nx := ch.Range(0, 2, "n-inner")
	for i := 0; i < nx; i++ {
		nm := fmt.Sprintf("n.x%d", i)
		addTask(nm, 1000, 3000)
		in = append(in, &StageSpec{Name: nm})
	}
	pos := ch.Choose(len(in)+1, "missing-position")
	inner.Stages = append(inner.Stages, in[:pos]...)
	inner.Stages = append(inner.Stages, m)
	inner.Stages = append(inner.Stages, in[pos:]...)
	n.Nested = inner
	g.Stages = append(g.Stages, n)
	if ch.Bool(1, 2, "stage-after-nested") {
		addTask("z", 0, 100)
		g.Stages = append(g.Stages, &StageSpec{Name: "z", Deps: []string{"n"}})
	}
	// declaration order is seeded too
	for i := len(g.Stages) - 1; i > 0; i-- {
		j := ch.Choose(i+1, "declaration-order")
		g.Stages[i], g.Stages[j] = g.Stages[j], g.Stages[i]
	}
	w.Graph = g
	w.Drivers = []DriverSpec{{Kind: "pipeline", Target: "root"}}
	return w
}

func runFaultJob(c *Ctl, job *Job, idx int, res *RunResult) {
	thorough := job.Tier == "thorough"
	prof := defaultIntegProfile()
	var w *IntegWorld
	reseed := func(a uint64, k int) {
		if !c.Ch.replaying {
			c.Ch.Reseed(seedFor(job.Base^a, k))
		}
	}
	switch job.Profile {
	case "c13":
		world, variant := idx/timeoutVariants, idx%timeoutVariants
		reseed(0x13000001, world)
		var what string
		w, what = GenTimeoutWorld(c.Ch, variant, thorough)
		for _, t := range w.Tasks {
			// an interactive task (it gets the terminal's stdin) is bound by its timeout like any other
			t.Interactive = c.Ch.Bool(1, 6, "interactive")
		}
		reseed(0x13000002, idx)
		prof.Checks["C13"] = true
		prof.WAdvance = 4
		res.WorldIdx = world
		res.Sample = map[string]interface{}{"world": w.Summary(), "overrunner": what}
		c.Count("c13_shape_" + what[:indexByte(what, '@')])
	case "c12":
		world, variant := idx/cancelVariants, idx%cancelVariants
		reseed(0x12000001, world)
		w = GenCancelWorld(c.Ch, thorough)
		reseed(0x12000002, world) // same base schedule for every Cancel position
		w.NFaults = 1 + world%2
		prof.CancelAt = variant
		prof.CancelAfter = true
		prof.WFault = 4
		prof.UseRunEnter = true
		prof.UseStageStart = true
		prof.WMidpass = 8
		prof.LogYield = true
		if world%3 == 0 {
			prof.CancelVia = "scheduler"
		} else {
			prof.CancelVia = "runner"
		}
		prof.Checks["C12"] = true
		res.WorldIdx = world
		if w.NFaults == 2 && world%4 == 1 {
			prof.OverlapCancels = true
		}
		if world%6 == 4 {
			// the cancellation originates inside the run: a condition error in a nested pipeline
			// that starts while other stages have commands in flight. The instant is the release
			// of the nesting stage: its first scheduling pass runs straight away (no yield points
			// are armed in between in these runs).
			reseed(0x12000003, idx)
			w = GenCondErrWorld(c.Ch)
			prof.CancelAt, prof.WFault = -1, 0
			prof.WMidpass, prof.LogYield = 0, false
			prof.PreemptPct = 0
			prof.InternalCancelStage = "n"
			prof.CancelVia = "condition-error"
			c.Count("c12_condition_error_worlds")
		}
		res.Sample = map[string]interface{}{"world": w.Summary(), "cancel_at_step": variant, "via": prof.CancelVia, "cancels": w.NFaults}
	case "c08":
		w = GenOverrideWorld(c.Ch, thorough)
		if len(w.ExtraGraphs) == 1 && c.Ch.Bool(1, 2, "first-pipeline-nests-the-second") {
			// a stage of the first pipeline nests the second one and carries overrides of its own: they
			// are not the nested stages' (which keep exactly their own), and the second pipeline's turn
			// as a target of its own comes when it has already run
			n := &StageSpec{Name: "p1n", Nested: w.ExtraGraphs[0], Env: map[string]string{"VS_E0": "p1n-e0", "VS_ONLY_P1N": "only-p1n"}, Vars: map[string]string{"VS_V0": "p1n-v0"}}
			if c.Ch.Bool(1, 2, "nesting-stage-dep") {
				n.Deps = []string{w.Graph.Stages[0].Name}
			}
			w.Graph.Stages = append(w.Graph.Stages, n)
			c.Count("c08_worlds_with_a_nesting_stage_that_has_overrides")
		}
		prof.UseRunEnter = true
		prof.UseStageStart = true
		prof.WAdvance = 1
		prof.Checks["C08"] = true
		// the shared task's context (a third of the worlds) must surround every stage's execution
		// of it, whatever the stage overrides
		prof.Checks["C14"] = true
		res.Sample = map[string]interface{}{"world": w.Summary(), "config": w.ConfigMap()}
	case "c06s":
		// a task shared by several stages, with per-stage results of its condition, hooks and commands
		w = GenOverrideWorld(c.Ch, thorough)
		t := w.Tasks[0]
		if strings.Contains(t.Dir, "{{") {
			// (taskctl renders a task's condition with the runner's variables only: a dir that is a
			// template over a task variable cannot be combined with a condition)
			t.Dir = "/vs/taskdir"
		}
		t.Cond = c.Ch.Bool(2, 3, "cond")
		if t.NCmd >= 2 && c.Ch.Bool(1, 4, "blank-command-entry") {
			t.BlankAt = 1 + c.Ch.Choose(t.NCmd, "blank-at") // a no-op, also on the second and later use of the task
		}
		// the stages' outputs also meet in the terminal decorators (same task name on every line / in the cockpit)
		w.Format = []string{"raw", "prefixed", "cockpit"}[c.Ch.Weighted([]int{2, 1, 1}, "format")]
		t.NBefore = c.Ch.Choose(2, "nbefore")
		t.NAfter = c.Ch.Choose(2, "nafter")
		t.Allow = c.Ch.Bool(1, 4, "allow")
		for _, g := range w.AllGraphs() {
			for _, s := range g.Stages {
				if strings.Contains(s.Dir, "{{") {
					s.Dir = "/vs/" + s.Name // (a condition cannot be combined with a dir templated over task variables)
				}
				if t.Cond {
					w.Plans[execID(t.Name, "cond", 0, "")+"@"+s.Name] = &ExecPlan{Exit: []int{0, 0, 1, 3}[c.Ch.Choose(4, "cond-exit")]}
				}
				for _, p := range taskPositions(t) {
					if p.block == "cmd" && c.Ch.Bool(1, 5, "cmd-fails") {
						w.Plans[execID(t.Name, p.block, p.idx, p.v)+"@"+s.Name] = &ExecPlan{Exit: genExit(c.Ch), DurMS: c.Ch.Choose(60, "dur")}
					}
					if p.block == "before" && c.Ch.Bool(1, 6, "before-fails") {
						w.Plans[execID(t.Name, p.block, p.idx, p.v)+"@"+s.Name] = &ExecPlan{Exit: genExit(c.Ch)}
					}
				}
			}
		}
		// every stage's execution of the task prints its own lines: what is captured for one stage
		// (and handed to its dependants) is what that execution wrote, not what a sibling wrote
		for _, g := range w.AllGraphs() {
			for _, s := range g.Stages {
				for _, p := range taskPositions(t) {
					if p.block != "cmd" {
						continue
					}
					id := execID(t.Name, p.block, p.idx, p.v)
					pl := w.Plans[id+"@"+s.Name]
					if pl == nil {
						cp := *w.Plan(id)
						pl = &cp
						w.Plans[id+"@"+s.Name] = pl
					}
					n := c.Ch.Choose(3, "lines")
					pl.Chunks = nil
					for k := 0; k < n; k++ {
						pl.Chunks = append(pl.Chunks, Chunk{Stream: 1, Data: []byte(fmt.Sprintf("%s %s line %d\n", s.Name, id, k))})
					}
				}
			}
		}
		// only pipelines (a direct run has no per-stage identity)
		var ds []DriverSpec
		for _, d := range w.Drivers {
			if d.Kind == "pipeline" {
				ds = append(ds, d)
			}
		}
		w.Drivers = ds
		prof.UseRunEnter = true
		prof.UseStageStart = true
		prof.WAdvance = 1
		prof.Checks["C06S"] = true
		res.Sample = map[string]interface{}{"world": w.Summary()}
	case "c04i":
		// C04 with the real runner: parallel stages, also stages sharing one task
		if idx%16 == 7 {
			// a wide pipeline: 17..28 stages eligible at once
			n := 17 + c.Ch.Choose(12, "wide-n")
			w = &IntegWorld{Plans: map[string]*ExecPlan{}, Format: "raw"}
			g := &GraphSpec{Name: "root"}
			for i := 0; i < n; i++ {
				nm := fmt.Sprintf("w%02d", i)
				w.Tasks = append(w.Tasks, &TaskSpec{Name: nm, NCmd: 1})
				g.Stages = append(g.Stages, &StageSpec{Name: nm})
				w.Plans[execID(nm, "cmd", 0, "")] = &ExecPlan{DurMS: c.Ch.Choose(40, "dur")}
			}
			w.Graph = g
			w.Drivers = []DriverSpec{{Kind: "pipeline", Target: "root"}}
			c.Count("c04i_wide_worlds")
		} else if idx%2 == 0 {
			w = GenOverrideWorld(c.Ch, thorough)
			// (the stages share one task, and with it - in a third of the worlds - one execution
			// context with before / after hooks and no up commands: sharing a context must not
			// serialise the stages either)
		} else {
			gen := IntegGen{MaxTasks: 3, MaxCmd: 2, MaxVar: 2, MaxHook: 1, CondProb: 10, AllowProb: 30, FailProb: 15, HookFailPct: 10,
				PipelinePct: 100, DurMax: 80, Names: "simple", InteractivePct: 15,
				StageGen: SchedGenParams{MaxStages: 5, NestProb: 0, AllowProb: 30, CondProb: 0, MaxDepth: 0, NoTrueCondWithDeps: true}}
			w = GenTaskWorld(c.Ch, gen)
			if c.Ch.Bool(1, 2, "shared-context") {
				// tasks of different stages in one context with before / after hooks (no up
				// commands: waiting for another task's `up` is legitimate)
				w.Contexts = []*CtxSpec{{Name: "cx", NBefore: c.Ch.Choose(2, "ncb"), NAfter: c.Ch.Choose(2, "nca"), NDown: c.Ch.Choose(2, "ndown")}}
				for _, t := range w.Tasks {
					if c.Ch.Bool(2, 3, "in-context") {
						t.Context = "cx"
					}
				}
			}
		}
		// every command first prints something (half of the time without finishing the line) and
		// keeps running: what one task leaves on the terminal must not hold the others back
		{
			var ids []string
			for _, t := range w.Tasks {
				for _, p := range taskPositions(t) {
					ids = append(ids, execID(t.Name, p.block, p.idx, p.v))
				}
			}
			sort.Strings(ids)
			for _, id := range ids {
				pl := w.Plans[id]
				if pl == nil {
					pl = &ExecPlan{}
					w.Plans[id] = pl
				}
				if len(pl.Chunks) == 0 && c.Ch.Bool(1, 2, "progress-output") {
					txt := "working on " + id
					if c.Ch.Bool(1, 2, "finish-line") {
						txt += "\n"
					} else {
						txt += "... "
					}
					pl.Chunks = []Chunk{{Stream: 1, Data: []byte(txt)}}
				}
			}
		}
		prof.Barrier = true
		prof.UseRunEnter = true
		prof.UseStageStart = true
		prof.WAdvance = 1
		res.Sample = map[string]interface{}{"world": w.Summary()}
	case "c19":
		world, variant := idx/3, idx%3
		reseed(0x19000001, world)
		w = GenOutputWorld(c.Ch, thorough)
		reseed(0x19000002, idx)
		w.Format = []string{"raw", "prefixed", "cockpit"}[variant]
		prof.WAdvance = 1
		prof.Checks["C19"] = true
		res.WorldIdx = world
		res.Sample = map[string]interface{}{"world": w.Summary(), "format": w.Format}
		c.Count("c19_format_" + w.Format)
	case "c14":
		w = GenContextWorld(c.Ch, thorough)
		prof.UseRunEnter = true
		prof.UseCtxUp = true
		prof.WAdvance = 1
		prof.Checks["C14"] = true
		res.Sample = map[string]interface{}{"world": w.Summary()}
	default:
		res.HarnessErr = "unknown fault profile " + job.Profile
		return
	}
	switch job.Profile {
	case "c08", "c06s", "c14", "c19", "c04i":
		if (idx/3)%3 == 1 {
			// a third of the worlds also preempt goroutines at function entries inside taskctl's code
			prof.PreemptPct, prof.PreemptDepth = 25, 14
			if job.Profile == "c19" && w.Format == "cockpit" {
				// the way from a task's start to the spinner's methods (which now take part in the
				// simulation) is long: compile, open the output, create and start the spinner
				prof.PreemptPct, prof.PreemptDepth = 40, 80
			}
		}
	}
	e := RunIntegWorld(c, prof, w, res)
	if e == nil {
		return
	}
	x := e.computeExpect()
	if prof.Checks["C13"] {
		e.checkC13(x)
		e.checkC01Overlap()
		e.checkC03Integ()
	}
	if prof.Checks["C12"] {
		e.checkC12(x)
		e.checkC14(x) // only the rules that hold under cancellation (up once / first, down once / last)
	}
	if prof.Checks["C14"] {
		e.checkC14(x)
	}
	if prof.Checks["C08"] {
		e.checkC01Shared()
		e.checkC08()
	}
	if prof.Checks["C06S"] {
		e.checkC06Shared()
		e.checkC11Shared()
	}
	if prof.Checks["C19"] {
		e.checkC19()
		res.Outcome = e.resultSignature()
	}
	res.NonTrivial = true
	e.c.Counters[fmt.Sprintf("max_parallel_execs_%d", e.maxExecPar)]++
}

func indexByte(s string, b byte) int {
	for i := 0; i < len(s); i++ {
		if s[i] == b {
			return i
		}
	}
	return len(s)
}

// ---- C14: execution contexts ----

func GenContextWorld(ch *Choices, thorough bool) *IntegWorld {
	w := &IntegWorld{Plans: map[string]*ExecPlan{}, Format: "raw"}
	nctx := ch.Range(1, 3, "n-ctx")
	for i := 0; i < nctx; i++ {
		cs := &CtxSpec{Name: fmt.Sprintf("c%d", i), NUp: ch.Choose(3, "nup"), NDown: ch.Choose(3, "ndown"), NBefore: ch.Choose(3, "ncb"), NAfter: ch.Choose(3, "nca")}
		w.Contexts = append(w.Contexts, cs)
		for k := 0; k < cs.NUp; k++ {
			pl := &ExecPlan{DurMS: ch.Choose(100, "up-dur")}
			if ch.Bool(1, 10, "up-fails") {
				pl.Exit = genExit(ch)
			}
			w.Plans[execID("ctx:"+cs.Name, "up", k, "")] = pl
		}
		if cs.NBefore > 0 && ch.Bool(1, 8, "ctx-before-fails") {
			// the context's before hook fails: the tasks of the context cannot run (each reports the
			// error), the context is still taken down at shutdown
			w.Plans[execID("ctx:"+cs.Name, "before", ch.Choose(cs.NBefore, "ctx-before-which"), "")] = &ExecPlan{Exit: genExit(ch)}
		}
		if cs.NAfter > 0 && ch.Bool(1, 8, "ctx-after-fails") {
			// a failing after hook is only logged: the other tasks of the context go on as usual
			w.Plans[execID("ctx:"+cs.Name, "after", ch.Choose(cs.NAfter, "ctx-after-which"), "")] = &ExecPlan{Exit: genExit(ch)}
		}
		for k := 0; k < cs.NDown; k++ {
			if ch.Bool(1, 5, "down-fails") {
				// a failing clean-up command must not keep the other contexts from being taken down
				w.Plans[execID("ctx:"+cs.Name, "down", k, "")] = &ExecPlan{Exit: genExit(ch)}
			}
		}
	}
	max := 5
	if thorough {
		max = 8
	}
	nt := ch.Range(1, max, "n-tasks")
	var names []string
	for i := 0; i < nt; i++ {
		nm := fmt.Sprintf("t%d", i)
		names = append(names, nm)
		t := &TaskSpec{Name: nm, NCmd: ch.Range(1, 2, "ncmd")}
		if ch.Bool(1, 3, "has-before") {
			t.NBefore = 1
		}
		if ch.Bool(1, 3, "has-after") {
			t.NAfter = 1
		}
		t.Cond = ch.Bool(1, 4, "cond")
		t.Allow = ch.Bool(1, 5, "allow")
		if !ch.Bool(1, 6, "no-ctx") {
			t.Context = w.Contexts[ch.Choose(nctx, "which-ctx")].Name
		}
		w.Tasks = append(w.Tasks, t)
		for _, p := range taskPositions(t) {
			pl := &ExecPlan{DurMS: ch.Choose(60, "dur")}
			if p.block == "cmd" && ch.Bool(1, 6, "cmd-fails") {
				pl.Exit = genExit(ch)
			}
			if p.block == "before" && ch.Bool(1, 4, "before-fails") {
				pl.Exit = genExit(ch)
			}
			w.Plans[execID(nm, p.block, p.idx, p.v)] = pl
		}
		if t.Cond {
			w.Plans[execID(nm, "cond", 0, "")] = &ExecPlan{Exit: []int{0, 0, 1}[ch.Choose(3, "cond-exit")]}
		}
	}
	switch ch.Choose(3, "mode") {
	case 0: // all started simultaneously
		for _, nm := range names {
			w.Drivers = append(w.Drivers, DriverSpec{Kind: "task", Target: nm})
		}
	case 1: // one after another
		for _, nm := range names {
			w.Drivers = append(w.Drivers, DriverSpec{Kind: "task", Target: nm})
		}
		w.Sequential = true
	default: // stages: parallel roots and chains
		g := &GraphSpec{Name: "root"}
		for i, nm := range names {
			s := &StageSpec{Name: nm, Allow: ch.Bool(1, 4, "stage-allow")}
			if i > 0 && ch.Bool(1, 2, "chained") {
				s.Deps = []string{names[ch.Choose(i, "dep")]}
			}
			g.Stages = append(g.Stages, s)
		}
		w.Graph = g
		w.Drivers = []DriverSpec{{Kind: "pipeline", Target: "root"}}
	}
	w.FinishTwice = ch.Bool(1, 2, "finish-twice")
	return w
}

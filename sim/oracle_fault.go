package verifsim

import (
	"fmt"
	"strings"
	"time"
)

// Oracles for the fault profiles of the INTEG engine: C12 (cancellation),
// C13 (per-command timeouts) and the INTEG part of C03.

func isTaskBlock(b string) bool { return b == "before" || b == "cmd" || b == "after" }

func (e *integEngine) taskSucceeded(name string) (bool, bool) {
	// returns (known, success)
	if e.cli {
		return false, false // task and stage objects live inside the application
	}
	for _, d := range e.drivers {
		if d.Spec.Kind == "task" && d.Spec.Target == name {
			if !d.Returned {
				return false, false
			}
			return true, d.Err == nil
		}
	}
	if e.w.Graph != nil {
		for _, l := range e.w.Graph.AllLeaves() {
			if e.stageTask(l) == name {
				st := statusName(e.stages[l.Name].ReadStatus())
				if st == MDone && !l.Allow {
					return true, true
				}
				if st == MError || st == MCanceled {
					return true, false
				}
				return false, false
			}
		}
	}
	return false, false
}

func (e *integEngine) checkC12(x *integExpect) {
	c := e.c
	if len(e.cancelCalls) == 0 {
		c.Count("c12_runs_without_cancel")
		return
	}
	tCall := e.cancelCalls[0]
	if e.cli && waitPoints > 0 {
		// through the command line the cancellation starts when the first of the application's
		// cancel listeners (woken by abort()) acts
		tCall = -1
		if len(e.listenerRel) > 0 {
			tCall = e.listenerRel[0]
		} else {
			c.Count("c12_cli_run_ended_before_a_listener_acted")
		}
		// abort() wakes the application's cancel listeners at once. If a task command was running
		// at that moment and no listener woke up before it ended, nothing connects this run to
		// the abort: it cannot be cancelled
		aCall := e.cancelCalls[0]
		woke := -1
		for _, ev := range c.Events {
			if ev.Kind == "park:cancel-listener" && ev.Seq > aCall && woke < 0 {
				woke = ev.Seq
			}
		}
		for _, r := range e.execs {
			if r.StartSeq < aCall && r.EndSeq > aCall && isTaskBlock(r.Info.Block) && !strings.HasPrefix(r.Info.Owner, "ctx:") && r.CtxDoneSeq < 0 && (woke < 0 || woke > r.EndSeq) {
				c.Violate("C12", "cli-abort-reaches-nobody", "taskctl %v: abort() was called (seq %d) while %s was running and no cancel listener of the application woke up before it ended (seq %d): the run cannot be cancelled", e.w.CLIArgs, aCall, r.Info.Key, r.EndSeq)
				break
			}
		}
	}
	tRet := -1
	if len(e.cancelRets) > 0 {
		tRet = e.cancelRets[0]
	}
	// (4) every task command running at the instant of Cancel is interrupted
	running := 0
	if e.cancelPreempted {
		tCall = -1
	}
	for _, r := range e.execs {
		if r.StartSeq < tCall && (r.EndSeq < 0 || r.EndSeq > tCall) {
			if isTaskBlock(r.Info.Block) && r.Info.Owner[:min(4, len(r.Info.Owner))] != "ctx:" {
				running++
				if r.CtxDoneSeq < 0 {
					c.Violate("C12", "command-not-interrupted", "command %s was running when Cancel was called (seq %d) but was never interrupted (ended seq %d, result %s)", r.Info.Key, tCall, r.EndSeq, r.Result)
				}
			} else {
				c.Count("c12_service_command_running_at_cancel")
			}
		}
	}
	c.Counters[fmt.Sprintf("c12_cancel_with_%d_task_commands_running", running)]++
	// (5) nothing starts once cancellation has completed (not observable through the CLI: abort()
	// only closes a channel, the cancellation itself runs in goroutines of the application)
	if tRet >= 0 && !e.cli {
		for _, r := range e.execs {
			if r.StartSeq > tRet && !(r.Info.Block == "down") {
				c.Violate("C12", "start-after-cancel", "command %s started (seq %d) after Cancel had returned (seq %d)", r.Info.Key, r.StartSeq, tRet)
				break
			}
		}
		for _, r := range e.execs {
			if r.StartSeq < tRet && (r.EndSeq < 0 || r.EndSeq > tRet) && r.Info.Block != "down" {
				c.Violate("C12", "running-after-cancel", "command %s was still running (started seq %d, ended seq %d) when Cancel returned (seq %d)", r.Info.Key, r.StartSeq, r.EndSeq, tRet)
				break
			}
		}
	}
	// (6) a task reports success only if it ran completely and uninterrupted
	for _, t := range e.w.Tasks {
		known, ok := e.taskSucceeded(t.Name)
		if !known || !ok {
			if known {
				c.Count("c12_tasks_reporting_error")
			}
			continue
		}
		rt := e.resultTask(t.Name)
		if rt.Skipped {
			// skipped means: its condition was evaluated and said no - not: the evaluation was cut short
			for _, r := range e.execsOf(t.Name) {
				if r.Info.Block == "cond" && (r.CtxDoneSeq >= 0 || r.Result != fmt.Sprint(planExit(e.w.PlanFor(r.Info.ID, e.pl.identity(r.Info.GID))))) {
					c.Violate("C12", "skipped-by-interrupted-condition", "task %s counts as skipped (and its run as a success) although its condition command %s did not finish by itself: it was interrupted by the cancellation (result %s)", t.Name, r.Info.Key, r.Result)
				}
			}
			continue
		}
		want := x.task[t.Name]
		rs := e.execsOf(t.Name)
		interrupted := false
		for _, r := range rs {
			if r.CtxDoneSeq >= 0 && r.Info.Block != "after" {
				interrupted = true
			}
		}
		ncmd := 0
		for _, r := range rs {
			if r.Info.Block == "cmd" {
				ncmd++
			}
		}
		wantCmd := 0
		for _, id := range want.Seq {
			if len(id) > len(t.Name)+5 && id[len(t.Name):len(t.Name)+5] == "/cmd/" {
				wantCmd++
			}
		}
		if interrupted || (!want.Skipped && (ncmd < wantCmd || want.Failed)) {
			c.Violate("C12", "success-after-cancel", "task %s reports success although it was interrupted or did not run completely (interrupted=%v, commands run %d of %d, model failed=%v)", t.Name, interrupted, ncmd, wantCmd, want.Failed)
			c.Violate("C07", "success-although-incomplete", "task %s reports success although it did not run completely (interrupted=%v, commands run %d of %d): a task whose commands were cut short or never ran did not succeed", t.Name, interrupted, ncmd, wantCmd)
		} else {
			c.Count("c12_tasks_completed_despite_cancel")
		}
	}
	if e.cli {
		interrupted := ""
		for _, r := range e.execs {
			if r.CtxDoneSeq >= 0 && isTaskBlock(r.Info.Block) && r.Info.Block != "after" && !strings.HasPrefix(r.Info.Owner, "ctx:") {
				// the task reports the error; a stage with allow_failure legitimately absorbs it
				allowed := false
				for _, g := range e.w.AllGraphs() {
					for _, st := range g.Stages {
						if e.stageTask(st) == r.Info.Owner && st.Allow {
							allowed = true
						}
					}
				}
				if !allowed {
					interrupted = r.Info.Key
				}
			}
		}
		for _, d := range e.drivers {
			if d.Spec.Kind == "cli" && d.Returned && interrupted != "" && d.Err == nil {
				c.Violate("C12", "cli-success-after-cancel", "taskctl %v returned no error although command %s was interrupted by the cancellation", e.w.CLIArgs, interrupted)
			}
		}
	}
	// every released driver returned (checked by the loop's stuck detector); C03: nothing left Running
	e.checkC03Integ()
}

func min(a, b int) int {
	if a < b {
		return a
	}
	return b
}

func (e *integEngine) checkC03Integ() {
	c := e.c
	for _, d := range e.drivers {
		if d.Spec.Kind == "pipeline" && d.Returned {
			for n, st := range e.stages {
				if statusName(st.ReadStatus()) == "running" {
					c.Violate("C03", "left-running", "stage %s is still Running after Schedule returned", n)
				}
			}
		}
	}
	// a run that was not cancelled leaves no stage waiting (flat pipelines only: the stages of a
	// nested pipeline that never ran stay untouched)
	if len(e.cancelCalls) == 0 {
		for _, g := range e.w.AllGraphs() {
			flat := !g.HasMissingCond()
			for _, s := range g.Stages {
				if s.Nested != nil {
					flat = false
				}
			}
			if !flat || !e.pipelineRan(g.Name) {
				continue
			}
			for _, s := range g.Stages {
				if st := e.stages[s.Name]; st != nil && statusName(st.ReadStatus()) == MWaiting {
					c.Violate("C03", "left-waiting", "stage %s of %s is still Waiting after Schedule returned although the run was not cancelled (statuses: %s)", s.Name, g.Name, e.statusDump(g))
					break
				}
			}
		}
	}
	cnt := map[string]int{}
	for _, ev := range c.Events {
		if ev.Kind == "run-enter" || ev.Kind == "park:run-enter" {
			cnt[ev.Subject]++
		}
	}
	for n, k := range cnt {
		if k > 1 && !e.sharedTask(n) {
			c.Violate("C03", "run-twice", "task %s was executed %d times", n, k)
		}
	}
}

func (e *integEngine) sharedTask(name string) bool {
	n := 0
	for _, d := range e.w.Drivers {
		if d.Kind == "task" && d.Target == name {
			n++
		}
	}
	if e.w.Graph != nil {
		for _, l := range e.w.Graph.AllLeaves() {
			if e.stageTask(l) == name {
				n++
			}
		}
	}
	return n > 1
}

// checkC13: per-command deadlines in simulated time.
func (e *integEngine) checkC13(x *integExpect) {
	c := e.c
	for _, t := range e.w.Tasks {
		if t.TimeoutMS <= 0 {
			continue
		}
		timeout := time.Duration(t.TimeoutMS) * time.Millisecond
		rs := e.execsOf(t.Name)
		jobStart := map[string]time.Duration{} // command id -> start of its first exec (shell loops re-enter the handler)
		overrun := -1                          // index in rs of the first overrunning before/cmd exec
		for i, r := range rs {
			info := r.Info
			if info.Block == "cond" {
				continue
			}
			js, seen := jobStart[info.ID]
			if !seen {
				js = info.StartAt
				jobStart[info.ID] = js
			}
			if !info.HasTimeout {
				c.Violate("C13", "no-deadline", "command %s of task %s (timeout %s) ran without a deadline", info.Key, t.Name, timeout)
				continue
			}
			if info.Deadline != js+timeout {
				c.Violate("C13", "wrong-deadline", "command %s started at %s with timeout %s: deadline %s, want %s (each command gets the full timeout)", info.Key, js, timeout, info.Deadline, js+timeout)
				if info.CtxDone && info.Deadline < js+timeout && len(e.cancelCalls) == 0 {
					c.Violate("C06", "command-cut-short", "task %s: command %s was interrupted at %s, before its own timeout (%s after its start at %s) had passed: a command that does not fail must not end the task", t.Name, info.Key, info.CtxDoneAt, timeout, js)
				}
			}
			if info.CtxDone {
				if info.CtxDoneAt != info.Deadline {
					c.Violate("C13", "interrupt-time", "command %s was interrupted at %s, its deadline was %s", info.Key, info.CtxDoneAt, info.Deadline)
				}
				c.Count("c13_commands_timed_out_" + info.Block)
				if overrun < 0 && info.Block != "after" {
					overrun = i
				}
			} else if r.EndSeq >= 0 {
				want := fmt.Sprint(planExit(e.w.PlanFor(info.ID, e.pl.identity(info.GID))))
				if r.Result != want {
					c.Violate("C13", "in-time-command-affected", "command %s finished within its timeout but ended with %s, planned %s", info.Key, r.Result, want)
					c.Violate("C06", "command-cut-short", "task %s: command %s would have finished within its own timeout (planned result %s) but ended with %s: a command that does not fail must not end the task", t.Name, info.Key, want, r.Result)
				}
				c.Count("c13_commands_in_time")
			}
		}
		known, ok := e.taskSucceeded(t.Name)
		rt := e.resultTask(t.Name)
		if overrun >= 0 {
			o := rs[overrun]
			for _, r := range rs[overrun+1:] {
				if isTaskBlock(r.Info.Block) {
					c.Violate("C13", "command-after-timeout", "task %s: %s started after %s had overrun its timeout", t.Name, r.Info.Key, o.Info.Key)
					break
				}
			}
			if known && ok {
				c.Violate("C13", "timeout-not-reported", "task %s: %s overran the timeout but the task reports success", t.Name, o.Info.Key)
				c.Violate("C07", "timeout-reported-as-success", "task %s: %s was killed by the task timeout (the task failed) but the run reports success", t.Name, o.Info.Key)
			}
			if o.Info.Block == "cmd" && !rt.Errored {
				c.Violate("C13", "timeout-not-errored", "task %s: command %s overran the timeout (allow_failure=%v) but the task is not marked errored", t.Name, o.Info.Key, t.Allow)
			}
			if t.Allow {
				c.Count("c13_timeout_under_allow_failure")
			}
			// as a stage of a pipeline: the stage failed (it was not "cancelled": that is what happens
			// to stages that never ran), and the pipeline run reports the failure
			if g := e.w.Graph; g != nil && o.Info.Block != "after" {
				for _, l := range g.Stages {
					if l.Nested != nil || e.stageTask(l) != t.Name || !e.pipelineRan(g.Name) {
						continue
					}
					want := MError
					if l.Allow {
						want = MDone
					}
					if got := statusName(e.stages[l.Name].ReadStatus()); got != want {
						c.Violate("C13", "timeout-stage-status", "stage %s: its task overran the timeout (%s) and the stage has status %s, want %s", l.Name, o.Info.Key, got, want)
					}
					for _, d := range e.drivers {
						if d.Spec.Kind == "pipeline" && d.Spec.Target == g.Name && d.Returned && !l.Allow && d.Err == nil {
							c.Violate("C13", "timeout-not-reported", "stage %s: its task overran the timeout (%s) but the pipeline run reports success", l.Name, o.Info.Key)
						}
					}
					c.Count("c13_timed_out_stages_checked")
				}
			}
			// terminated shortly afterwards: the run returns within the kill grace period
			for _, d := range e.drivers {
				if d.Spec.Kind == "task" && d.Spec.Target == t.Name && d.Returned {
					at := c.Events[d.ReturnSeq].At
					if at > o.Info.Deadline+killGrace+time.Millisecond {
						c.Violate("C13", "late-return", "task %s returned at %s, more than the %s kill grace after the deadline %s", t.Name, at, killGrace, o.Info.Deadline)
					}
				}
			}
		} else if known {
			// no overrun in before/commands: result as the fault-free model says
			want := x.task[t.Name]
			loop := false
			for _, txt := range t.CmdText {
				if len(txt) > 5 && txt[:5] == "while" {
					loop = true
				}
			}
			if !loop && ok == want.Failed {
				c.Violate("C13", "in-time-task-affected", "task %s had no command overrunning its timeout: success=%v, model failed=%v", t.Name, ok, want.Failed)
				c.Violate("C06", "task-cut-short", "task %s: no command overran its timeout, yet the task's outcome (success=%v) is not what its commands' results say (failed=%v)", t.Name, ok, want.Failed)
			}
			c.Count("c13_tasks_without_overrun")
		}
	}
}

func (e *integEngine) statusDump(g *GraphSpec) string {
	var parts []string
	for _, s := range g.Stages {
		if st := e.stages[s.Name]; st != nil {
			parts = append(parts, s.Name+"="+statusName(st.ReadStatus()))
		}
	}
	return strings.Join(parts, " ")
}
